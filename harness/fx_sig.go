package harness

// Signature-grid fixture for C01: value types, typed edge-biased generators,
// text <-> typed value conversion for replayable descriptors, and the recording
// handler base (methods themselves are generated into siggrid_gen.go).

import (
	"context"
	"encoding/hex"
	"encoding/json"
	"errors"
	"fmt"
	"math"
	"reflect"
	"strings"
	"sync"

	jsonrpc "github.com/filecoin-project/go-jsonrpc"
	"pgregory.net/rapid"
)

type Inner struct {
	N int64  `json:"n"`
	S string `json:"s,omitempty"`
	P *Inner `json:"p"`
}

type Embedded struct {
	E1 int `json:"e1"`
	E2 []string
}

type Outer struct {
	Embedded
	ID         uint64           `json:"id"`
	Name       string           `json:"renamed"`
	In         Inner            `json:"in"`
	PIn        *Inner           `json:"pin,omitempty"`
	M          map[string][]int `json:"m"`
	B          []byte           `json:"b"`
	F          float64          `json:"f"`
	I          interface{}      `json:"i"`
	Raw        json.RawMessage  `json:"raw,omitempty"`
	Skip       int              `json:"-"`
	unexported int
}

// Hex is a byte string with custom (Un)Marshalers.
type Hex []byte

func (h Hex) MarshalJSON() ([]byte, error) { return json.Marshal("0x" + hex.EncodeToString(h)) }
func (h *Hex) UnmarshalJSON(b []byte) error {
	var s string
	if err := json.Unmarshal(b, &s); err != nil {
		return err
	}
	if !strings.HasPrefix(s, "0x") {
		return errors.New("hex: missing 0x")
	}
	d, err := hex.DecodeString(s[2:])
	if err != nil {
		return err
	}
	*h = d
	return nil
}

// Opaque is not JSON-serialisable (it holds a func); it travels through a
// custom param encoder / decoder pair.
type Opaque struct {
	Tag string
	f   func()
}

func opaqueEncoder(v reflect.Value) (reflect.Value, error) {
	o := v.Interface().(Opaque)
	return reflect.ValueOf("opaque:" + o.Tag), nil
}

func opaqueDecoder(ctx context.Context, b []byte) (reflect.Value, error) {
	var s string
	if err := json.Unmarshal(b, &s); err != nil {
		return reflect.Value{}, err
	}
	if !strings.HasPrefix(s, "opaque:") {
		return reflect.Value{}, errors.New("not an opaque")
	}
	return reflect.ValueOf(Opaque{Tag: s[len("opaque:"):]}), nil
}

func (o Opaque) MarshalJSON() ([]byte, error) {
	return nil, errors.New("Opaque must go through the param encoder")
}

type sigMethod struct {
	Name    string
	Ctx     bool
	Params  []string
	Res     string // none | val | err | valerr
	ResType string
	Raw     bool
}

var sigTypes = map[string]reflect.Type{
	"I64": reflect.TypeOf(int64(0)), "U64": reflect.TypeOf(uint64(0)), "F64": reflect.TypeOf(float64(0)), "Str": reflect.TypeOf(""),
	"Bool": reflect.TypeOf(false), "Bytes": reflect.TypeOf([]byte(nil)), "Ints": reflect.TypeOf([]int(nil)), "MapSS": reflect.TypeOf(map[string]string(nil)),
	"PInner": reflect.TypeOf((*Inner)(nil)), "Outer": reflect.TypeOf(Outer{}), "Raw": reflect.TypeOf(json.RawMessage(nil)), "Hex": reflect.TypeOf(Hex(nil)),
	"Any": reflect.TypeOf((*interface{})(nil)).Elem(), "Opaque": reflect.TypeOf(Opaque{}), "RawParams": reflect.TypeOf(jsonrpc.RawParams(nil)),
}

type sigScript struct {
	val interface{}
	err error
}

type sigRecord struct {
	Name   string
	HasCtx bool
	Args   []interface{}
}

type SigAPI struct {
	mu   sync.Mutex
	log  []sigRecord
	next sigScript
}

func (s *SigAPI) enter(name string, ctx context.Context, args ...interface{}) sigScript {
	s.mu.Lock()
	defer s.mu.Unlock()
	s.log = append(s.log, sigRecord{Name: name, HasCtx: ctx != nil, Args: args})
	return s.next
}

func (s *SigAPI) script(sc sigScript) {
	s.mu.Lock()
	s.next = sc
	s.log = nil
	s.mu.Unlock()
}

func (s *SigAPI) take() []sigRecord {
	s.mu.Lock()
	defer s.mu.Unlock()
	l := s.log
	s.log = nil
	return l
}

// ---- text <-> typed values ------------------------------------------------

// typedText is the replayable form of one argument/result: the JSON text the
// value marshals to (raw bytes for RawMessage/RawParams, the tag for Opaque).
type typedText struct {
	T string `json:"t"`
	J string `json:"j"`
}

func toText(t string, v interface{}) typedText {
	switch t {
	case "Raw":
		r, _ := v.(json.RawMessage)
		if r == nil {
			return typedText{t, "\x00nil"}
		}
		return typedText{t, string(r)}
	case "RawParams":
		r, _ := v.(jsonrpc.RawParams)
		if r == nil {
			return typedText{t, "\x00nil"}
		}
		return typedText{t, string(r)}
	case "Opaque":
		return typedText{t, v.(Opaque).Tag}
	}
	b, err := json.Marshal(v)
	if err != nil {
		panic(fmt.Sprintf("generator produced an unmarshalable %s: %v", t, err))
	}
	return typedText{t, string(b)}
}

func fromText(tt typedText) reflect.Value {
	switch tt.T {
	case "Raw":
		if tt.J == "\x00nil" {
			return reflect.ValueOf(json.RawMessage(nil))
		}
		return reflect.ValueOf(json.RawMessage(tt.J))
	case "RawParams":
		if tt.J == "\x00nil" {
			return reflect.ValueOf(jsonrpc.RawParams(nil))
		}
		return reflect.ValueOf(jsonrpc.RawParams(tt.J))
	case "Opaque":
		return reflect.ValueOf(Opaque{Tag: tt.J})
	}
	p := reflect.New(sigTypes[tt.T])
	if err := json.Unmarshal([]byte(tt.J), p.Interface()); err != nil {
		panic(fmt.Sprintf("descriptor text %q does not decode into %s: %v", tt.J, tt.T, err))
	}
	return p.Elem()
}

// roundtrip is the property's own definition of what must arrive: the value
// after json.Marshal / json.Unmarshal into the declared type (through the custom
// pair for Opaque, verbatim-after-compaction for raw JSON).
func roundtrip(t string, v reflect.Value) (reflect.Value, error) {
	if t == "Opaque" {
		e, _ := opaqueEncoder(v)
		b, _ := json.Marshal(e.Interface())
		return opaqueDecoder(context.Background(), b)
	}
	if t == "RawParams" {
		// raw params are sent verbatim as the request's params member (null when empty)
		b, err := json.Marshal(json.RawMessage(v.Interface().(jsonrpc.RawParams)))
		if err != nil {
			return reflect.Value{}, err
		}
		return reflect.ValueOf(jsonrpc.RawParams(b)), nil
	}
	b, err := json.Marshal(v.Interface())
	if err != nil {
		return reflect.Value{}, err
	}
	p := reflect.New(sigTypes[t])
	if err := json.Unmarshal(b, p.Interface()); err != nil {
		return reflect.Value{}, err
	}
	return p.Elem(), nil
}

func sameValue(t string, a, b interface{}) bool {
	if t == "Opaque" {
		return a.(Opaque).Tag == b.(Opaque).Tag
	}
	if t == "RawParams" {
		return string(a.(jsonrpc.RawParams)) == string(b.(jsonrpc.RawParams))
	}
	if !reflect.DeepEqual(a, b) {
		return false
	}
	ja, ea := json.Marshal(a)
	jb, eb := json.Marshal(b)
	return ea == nil && eb == nil && string(ja) == string(jb)
}

// ---- generators -----------------------------------------------------------

var edgeStrings = []string{"", "a", "<script>&\"'</script>", "line\nbreak\ttab\r", "\u2028\u2029", "\x00\x01\x1f\x7f", "😀𝄞", "é中文", "\\\"\\", "null", " lead trail ", "\ufeffBOM", "{\"a\":1}"}

func genString(t *rapid.T, label string) (string, string) {
	if rapid.IntRange(0, 9).Draw(t, label+"_edge") < 4 {
		i := rapid.IntRange(0, len(edgeStrings)-1).Draw(t, label+"_ei")
		classes := []string{"empty_string", "", "html_string", "ctrl_string", "u2028_string", "ctrl_string", "rune4_string", "", "escape_string", "", "", "", ""}
		return edgeStrings[i], classes[i]
	}
	return rapid.StringN(0, 24, -1).Draw(t, label), ""
}

func genInner(t *rapid.T, label string, depth int) *Inner {
	if rapid.IntRange(0, 3).Draw(t, label+"_nil") == 0 {
		return nil
	}
	s, _ := genString(t, label+"_s")
	in := &Inner{N: genI64(t, label+"_n"), S: s}
	if depth < 2 {
		in.P = genInner(t, label+"_p", depth+1)
	}
	return in
}

func genI64(t *rapid.T, label string) int64 {
	if rapid.IntRange(0, 9).Draw(t, label+"_edge") < 3 {
		return rapid.SampledFrom([]int64{math.MinInt64, math.MaxInt64, 0, -1, 1, 1 << 53, -(1 << 53) - 1, math.MaxInt32 + 1}).Draw(t, label+"_ev")
	}
	return rapid.Int64().Draw(t, label)
}

func genF64(t *rapid.T, label string) (float64, string) {
	if rapid.IntRange(0, 9).Draw(t, label+"_edge") < 4 {
		i := rapid.IntRange(0, 8).Draw(t, label+"_ei")
		vals := []float64{math.Copysign(0, -1), 1e308, 5e-324, -1.7976931348623157e308, 0, 0.1, 1e21, 1e-7, 123456789.123456789}
		cls := []string{"neg_zero", "big_float", "tiny_float", "big_float", "", "", "exp_float", "exp_float", ""}
		return vals[i], cls[i]
	}
	return rapid.Float64Range(-1e15, 1e15).Draw(t, label), ""
}

func genAny(t *rapid.T, label string, depth int) interface{} {
	k := rapid.IntRange(0, 9).Draw(t, label+"_k")
	if depth >= 2 && k >= 7 {
		k = 3
	}
	switch k {
	case 0:
		return nil
	case 1:
		return rapid.Bool().Draw(t, label+"_b")
	case 2:
		f, _ := genF64(t, label+"_f")
		return f
	case 3:
		s, _ := genString(t, label+"_s")
		return s
	case 4:
		return genI64(t, label+"_i")
	case 5:
		return uint64(math.MaxUint64)
	case 6:
		return []interface{}{}
	case 7:
		n := rapid.IntRange(0, 3).Draw(t, label+"_n")
		out := make([]interface{}, n)
		for i := range out {
			out[i] = genAny(t, fmt.Sprintf("%s_%d", label, i), depth+1)
		}
		return out
	case 8:
		n := rapid.IntRange(0, 3).Draw(t, label+"_n")
		out := map[string]interface{}{}
		for i := 0; i < n; i++ {
			k, _ := genString(t, fmt.Sprintf("%s_k%d", label, i))
			out[k] = genAny(t, fmt.Sprintf("%s_v%d", label, i), depth+1)
		}
		return out
	default:
		return map[string]interface{}(nil)
	}
}

var rawJSONs = []string{"null", "0", "-0", "1e400", "18446744073709551616", `"s"`, `""`, "true", "[]", "{}", `[1,"a",null,{"b":[]}]`, `{"a":{"b":{"c":[1,2,3]}}}`, "{ \"sp\" :\t[ 1 , 2 ] }", `"<>& "`, `"😀"`, "1.0", "[[],[[]]]"}

func genRaw(t *rapid.T, label string) (json.RawMessage, string) {
	k := rapid.IntRange(0, 9).Draw(t, label+"_k")
	switch {
	case k == 0:
		return nil, "raw_nil"
	case k <= 6:
		return json.RawMessage(rapid.SampledFrom(rawJSONs).Draw(t, label)), "raw_json"
	default:
		return json.RawMessage(mustJSON(genAny(t, label+"_any", 0))), "raw_json"
	}
}

// genValue draws a value of the named pool type plus the edge class it falls in ("" = ordinary).
func genValue(t *rapid.T, typ, label string) (interface{}, string) {
	switch typ {
	case "I64":
		v := genI64(t, label)
		if v == math.MinInt64 || v == math.MaxInt64 {
			return v, "int_extreme"
		}
		return v, ""
	case "U64":
		if rapid.IntRange(0, 9).Draw(t, label+"_edge") < 3 {
			return uint64(math.MaxUint64), "int_extreme"
		}
		return rapid.Uint64().Draw(t, label), ""
	case "F64":
		return genF64(t, label)
	case "Str":
		return genString(t, label)
	case "Bool":
		return rapid.Bool().Draw(t, label), ""
	case "Bytes":
		switch rapid.IntRange(0, 5).Draw(t, label+"_k") {
		case 0:
			return []byte(nil), "nil_slice"
		case 1:
			return []byte{}, "empty_slice"
		case 2:
			return []byte{rapid.Byte().Draw(t, label+"_b")}, ""
		}
		return rapid.SliceOfN(rapid.Byte(), 0, 300).Draw(t, label), ""
	case "Ints":
		switch rapid.IntRange(0, 4).Draw(t, label+"_k") {
		case 0:
			return []int(nil), "nil_slice"
		case 1:
			return []int{}, "empty_slice"
		}
		return rapid.SliceOfN(rapid.Int(), 0, 8).Draw(t, label), ""
	case "MapSS":
		switch rapid.IntRange(0, 4).Draw(t, label+"_k") {
		case 0:
			return map[string]string(nil), "nil_map"
		case 1:
			return map[string]string{}, "empty_map"
		}
		n := rapid.IntRange(1, 4).Draw(t, label+"_n")
		m := map[string]string{}
		for i := 0; i < n; i++ {
			k, _ := genString(t, fmt.Sprintf("%s_k%d", label, i))
			v, _ := genString(t, fmt.Sprintf("%s_v%d", label, i))
			m[k] = v
		}
		return m, ""
	case "PInner":
		p := genInner(t, label, 0)
		if p == nil {
			return p, "nil_ptr"
		}
		return p, "nested_struct"
	case "Outer":
		name, _ := genString(t, label+"_name")
		f, _ := genF64(t, label+"_f")
		raw, _ := genRaw(t, label+"_raw")
		o := Outer{ID: rapid.Uint64().Draw(t, label+"_id"), Name: name, F: f, I: genAny(t, label+"_i", 1), Raw: raw, Skip: 7, unexported: 9}
		o.E1 = rapid.Int().Draw(t, label+"_e1")
		if rapid.Bool().Draw(t, label+"_e2") {
			o.E2 = []string{}
		}
		if in := genInner(t, label+"_in", 1); in != nil {
			o.In = *in
		}
		o.PIn = genInner(t, label+"_pin", 1)
		switch rapid.IntRange(0, 2).Draw(t, label+"_m") {
		case 1:
			o.M = map[string][]int{}
		case 2:
			o.M = map[string][]int{"a": nil, "b": {}, "c": {1, 2}}
		}
		switch rapid.IntRange(0, 2).Draw(t, label+"_b") {
		case 1:
			o.B = []byte{}
		case 2:
			o.B = []byte{0, 255, '<'}
		}
		return o, "nested_struct"
	case "Raw":
		return genRaw(t, label)
	case "Hex":
		switch rapid.IntRange(0, 3).Draw(t, label+"_k") {
		case 0:
			return Hex(nil), "custom_marshaler"
		case 1:
			return Hex{}, "custom_marshaler"
		}
		return Hex(rapid.SliceOfN(rapid.Byte(), 1, 40).Draw(t, label)), "custom_marshaler"
	case "Any":
		v := genAny(t, label, 0)
		if v == nil {
			return v, "nil_interface"
		}
		return v, "interface_value"
	case "Opaque":
		s, _ := genString(t, label)
		return Opaque{Tag: s, f: func() {}}, "custom_param_codec"
	case "RawParams":
		k := rapid.IntRange(0, 9).Draw(t, label+"_k")
		switch {
		case k == 0:
			return jsonrpc.RawParams(`[]`), "raw_params"
		case k == 1:
			return jsonrpc.RawParams(`{"named":1,"x":[true,null]}`), "raw_params"
		}
		r, _ := genRaw(t, label)
		if r == nil {
			r = json.RawMessage("null")
		}
		return jsonrpc.RawParams(r), "raw_params"
	}
	panic("unknown type " + typ)
}
