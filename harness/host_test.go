package harness

// Subprocess hosting: the endpoint under attack (a server, or a library client
// facing a hostile fake server) runs in a child process - this test binary
// re-executed with VERIF_HOST set - so that a crash of the endpoint is an
// observation for the parent instead of the end of the test run.

import (
	"bufio"
	"context"
	"fmt"
	"net/http"
	"net/http/httptest"
	"os"
	"os/exec"
	"reflect"
	"strings"
	"sync"
	"testing"
	"time"

	jsonrpc "github.com/filecoin-project/go-jsonrpc"
)

func TestMain(m *testing.M) {
	switch os.Getenv("VERIF_HOST") {
	case "server":
		hostServer()
		os.Exit(0)
	case "client":
		hostClient()
		os.Exit(0)
	}
	os.Exit(m.Run())
}

// hostServer serves BasicAPI (namespace T) and the token world (namespace Tok, with
// reverse client support) and prints its address. It exits when stdin closes.
func hostServer() {
	w := NewWorld()
	mk := func(opts ...jsonrpc.ServerOption) *jsonrpc.RPCServer {
		rpc := jsonrpc.NewServer(append([]jsonrpc.ServerOption{jsonrpc.WithReverseClient[RevClient]("Rev")}, opts...)...)
		rpc.Register("T", NewBasicAPI())
		rpc.Register("Tok", &TokAPI{W: w})
		rpc.AliasMethod("Tok.SubVia", "Tok.Sub")
		for a, to := range c09Aliases {
			rpc.AliasMethod(a, to)
		}
		return rpc
	}
	// the same services twice: at / as before, at /traced behind a server built with a tracer that looks at everything it
	// is handed (what a handler does, panics included, must not depend on being traced)
	mux := http.NewServeMux()
	mux.Handle("/traced", mk(jsonrpc.WithTracer(func(method string, params []reflect.Value, results []reflect.Value, err error) {
		for _, v := range append(append([]reflect.Value{}, params...), results...) {
			if v.IsValid() && v.CanInterface() {
				_ = fmt.Sprintf("%T", v.Interface())
			}
		}
	})))
	mux.Handle("/", mk())
	srv := httptest.NewServer(mux)
	fmt.Printf("LISTEN %s\n", srv.Listener.Addr().String())
	sc := bufio.NewScanner(os.Stdin)
	for sc.Scan() {
		line := sc.Text()
		if strings.HasPrefix(line, "release ") {
			w.Release(strings.TrimPrefix(line, "release "))
			fmt.Println("OK")
		}
		if line == "ping" {
			fmt.Println("PONG")
		}
	}
}

// hostClient connects a library client (with or without a reverse handler) to
// VERIF_TARGET and executes line commands from stdin.
func hostClient() {
	var cl TokClient
	opts := []jsonrpc.Option{jsonrpc.WithReconnectBackoff(5*time.Millisecond, 20*time.Millisecond)}
	if os.Getenv("VERIF_HOST_HANDLER") == "1" {
		opts = append(opts, jsonrpc.WithClientHandler("Rev", &RevHandler{ID: "hosted"}), jsonrpc.WithClientHandler("Rev2", &RevHandler2{ID: "hosted"}), jsonrpc.WithClientHandlerAlias("rev.alias", "Rev.Aliased"))
	}
	closer, err := jsonrpc.NewMergeClient(context.Background(), os.Getenv("VERIF_TARGET"), "Tok", []interface{}{&cl}, nil, opts...)
	if err != nil {
		fmt.Printf("FATAL %v\n", err)
		return
	}
	defer closer()
	fmt.Println("READY")
	var mu sync.Mutex
	say := func(format string, a ...interface{}) {
		mu.Lock()
		fmt.Printf(format+"\n", a...)
		mu.Unlock()
	}
	sc := bufio.NewScanner(os.Stdin)
	for sc.Scan() {
		f := strings.Fields(sc.Text())
		if len(f) == 0 {
			continue
		}
		switch f[0] {
		case "ping":
			say("PONG")
		case "call":
			tok := f[1]
			go func() {
				ctx, cancel := context.WithTimeout(context.Background(), 3*time.Second)
				defer cancel()
				res, err := cl.Call(ctx, tok, Plan{})
				switch {
				case err != nil:
					say("RES %s err %v", tok, err)
				case res.Tok != tok || res.Echo != expectedEcho(tok):
					say("RES %s foreign %+v", tok, res)
				default:
					say("RES %s ok", tok)
				}
			}()
		case "subpend":
			// a channel-returning call the fake peer never answers by itself: it stays in flight (2 s at most)
			tok := f[1]
			go func() {
				ctx, cancel := context.WithTimeout(context.Background(), 2*time.Second)
				defer cancel()
				say("SUBPEND %s", tok)
				ch, err := cl.SubInt(ctx, tok, Plan{})
				if err == nil {
					for range ch {
					}
				}
			}()
		case "sub":
			tok := f[1]
			go func() {
				ch, err := cl.Sub(context.Background(), tok, Plan{})
				if err != nil {
					say("SUB %s err %v", tok, err)
					return
				}
				say("SUB %s ok", tok)
				for range ch {
				}
				say("SUBCLOSED %s", tok)
			}()
		}
	}
}

type hostProc struct {
	cmd   *exec.Cmd
	stdin *bufio.Writer
	lines chan string
	dead  chan struct{}
	addr  string
	out   []string
	mu    sync.Mutex
}

func startHost(mode string, env ...string) (*hostProc, error) {
	cmd := exec.Command(os.Args[0], "-test.run", "^$")
	cmd.Env = append(os.Environ(), "VERIF_HOST="+mode, "VERIF_STATS=", "VERIF_JOURNAL=")
	cmd.Env = append(cmd.Env, env...)
	in, err := cmd.StdinPipe()
	if err != nil {
		return nil, err
	}
	outp, err := cmd.StdoutPipe()
	if err != nil {
		return nil, err
	}
	errp, err := cmd.StderrPipe()
	if err != nil {
		return nil, err
	}
	if err := cmd.Start(); err != nil {
		return nil, err
	}
	h := &hostProc{cmd: cmd, stdin: bufio.NewWriter(in), lines: make(chan string, 256), dead: make(chan struct{})}
	var wg sync.WaitGroup
	wg.Add(2)
	go func() {
		defer wg.Done()
		sc := bufio.NewScanner(outp)
		sc.Buffer(make([]byte, 1<<20), 1<<20)
		for sc.Scan() {
			select {
			case h.lines <- sc.Text():
			default:
			}
		}
	}()
	go func() {
		defer wg.Done()
		sc := bufio.NewScanner(errp)
		sc.Buffer(make([]byte, 1<<20), 1<<20)
		for sc.Scan() {
			h.mu.Lock()
			if len(h.out) < 400 {
				h.out = append(h.out, sc.Text())
			}
			h.mu.Unlock()
		}
	}()
	go func() {
		wg.Wait()
		cmd.Wait()
		close(h.dead)
	}()
	want := "LISTEN "
	if mode == "client" {
		want = "READY"
	}
	line, ok := h.expect(want, 10*time.Second)
	if !ok {
		h.Kill()
		return nil, fmt.Errorf("host %s did not start: %q stderr: %v", mode, line, h.Stderr(10))
	}
	h.addr = strings.TrimPrefix(line, "LISTEN ")
	return h, nil
}

func (h *hostProc) expect(prefix string, d time.Duration) (string, bool) {
	t := time.NewTimer(d)
	defer t.Stop()
	for {
		select {
		case l := <-h.lines:
			if strings.HasPrefix(l, prefix) {
				return l, true
			}
		case <-h.dead:
			return "dead", false
		case <-t.C:
			return "timeout", false
		}
	}
}

func (h *hostProc) Send(line string) {
	h.stdin.WriteString(line + "\n")
	h.stdin.Flush()
}

func (h *hostProc) Alive() bool {
	select {
	case <-h.dead:
		return false
	default:
		return true
	}
}

// DiedWithin waits up to d for the process to exit (a crash caused by the last frame takes a moment).
func (h *hostProc) DiedWithin(d time.Duration) bool {
	select {
	case <-h.dead:
		return true
	case <-time.After(d):
		return false
	}
}

func (h *hostProc) Stderr(n int) []string {
	h.mu.Lock()
	defer h.mu.Unlock()
	// the interesting part of a Go crash is its first lines
	for i, l := range h.out {
		if strings.HasPrefix(l, "panic:") || strings.HasPrefix(l, "fatal error:") {
			end := i + n
			if end > len(h.out) {
				end = len(h.out)
			}
			return append([]string{}, h.out[i:end]...)
		}
	}
	if len(h.out) > n {
		return append([]string{}, h.out[len(h.out)-n:]...)
	}
	return append([]string{}, h.out...)
}

func (h *hostProc) Kill() {
	if h.Alive() {
		h.cmd.Process.Kill()
		<-h.dead
	}
}
