package harness

// Controller for the verif-tag yield points in the library: counts occurrences,
// injects delays, fires triggers and records a history ring. Process-global
// (the library hook is), so cases run sequentially inside one process.

import (
	"fmt"
	"sync"
	"time"

	jsonrpc "github.com/filecoin-project/go-jsonrpc"
)

type HookRule struct {
	Point  string `json:"point"`
	Occ    int    `json:"occ"`            // k-th occurrence (1-based) since Reset; 0 = every occurrence
	Side   string `json:"side,omitempty"` // "", "client", "server"
	DelayU int    `json:"delay_us,omitempty"`
	// Trigger, if set, runs in its own goroutine when the rule matches; the library
	// goroutine is then held for HoldU microseconds so the action lands inside the window.
	Trigger func() `json:"-"`
	HoldU   int    `json:"hold_us,omitempty"`
	// HoldUntil, if set, ends the hold early (HoldU is then the upper bound of the hold).
	HoldUntil <-chan struct{} `json:"-"`
	fired     bool
}

type hookEvent struct {
	At     time.Duration
	Point  string
	Server bool
	Conn   uintptr
}

type HookCtl struct {
	mu     sync.Mutex
	counts map[string]int // by point|side
	rules  []*HookRule
	ring   []hookEvent
	start  time.Time
	on     bool
}

var hooks = &HookCtl{counts: map[string]int{}}

func init() {
	jsonrpc.VerifSetHook(hooks.event)
}

func sideName(server bool) string {
	if server {
		return "server"
	}
	return "client"
}

func (h *HookCtl) event(point string, server bool, conn uintptr) {
	h.mu.Lock()
	if !h.on {
		h.mu.Unlock()
		return
	}
	side := sideName(server)
	h.counts[point+"|"+side]++
	n := h.counts[point+"|"+side]
	if len(h.ring) < 4000 {
		h.ring = append(h.ring, hookEvent{At: time.Since(h.start), Point: point, Server: server, Conn: conn})
	}
	var delay, hold time.Duration
	var trig func()
	var until <-chan struct{}
	for _, r := range h.rules {
		if r.Point != point || (r.Side != "" && r.Side != side) {
			continue
		}
		if r.Occ != 0 && (r.Occ != n || r.fired) {
			continue
		}
		r.fired = true
		delay += time.Duration(r.DelayU) * time.Microsecond
		if r.Trigger != nil {
			trig = r.Trigger
			if r.HoldUntil != nil {
				until = r.HoldUntil
				hold += time.Duration(r.HoldU) * time.Microsecond
			} else {
				delay += time.Duration(r.HoldU) * time.Microsecond
			}
		}
	}
	h.mu.Unlock()
	if trig != nil {
		go trig()
	}
	if delay > 0 {
		time.Sleep(delay)
	}
	if until != nil {
		select {
		case <-until:
		case <-time.After(hold):
		}
	}
}

// Reset clears counters, rules and history and enables the controller.
func (h *HookCtl) Reset(rules ...*HookRule) {
	h.mu.Lock()
	h.counts = map[string]int{}
	h.rules = rules
	h.ring = nil
	h.start = time.Now()
	h.on = true
	h.mu.Unlock()
}

func (h *HookCtl) Off() {
	h.mu.Lock()
	h.on = false
	h.rules = nil
	h.mu.Unlock()
}

func (h *HookCtl) Counts() map[string]int {
	h.mu.Lock()
	defer h.mu.Unlock()
	out := map[string]int{}
	for k, v := range h.counts {
		out[k] = v
	}
	return out
}

func (h *HookCtl) History(max int) []string {
	h.mu.Lock()
	defer h.mu.Unlock()
	out := []string{}
	from := 0
	if len(h.ring) > max {
		from = len(h.ring) - max
	}
	for _, e := range h.ring[from:] {
		out = append(out, fmt.Sprintf("%8.3fms %-22s %s conn=%x", float64(e.At.Microseconds())/1000, e.Point, sideName(e.Server), e.Conn&0xffff))
	}
	return out
}

// hookPoints lists the yield points delays may be attached to.
var hookPoints = []string{"req.accepted", "inflight.registered", "write.locked", "resp.found", "resp.delivered", "call.dispatch", "cancel.send",
	"chan.register", "chan.forward", "chan.sink", "closechans.begin", "reconnect.begin", "frame.read", "exit.exiting-closed", "stop.begin", "chan.close"}
