package harness

// C09 - server replies conform to JSON-RPC 2.0 for every request, single or batch.
//
// Generator: grammar-based request bodies (ids of every JSON type, params of
// every shape, registered / aliased / unknown / protocol-internal methods,
// notifications at every batch position) plus byte-level mutations.
// Oracle: reference reply model in model_jsonrpc.go + per-method invocation
// counters. Transports: HandleRequest (in-process), real HTTP, raw WebSocket.

import (
	"bytes"
	"context"
	"encoding/json"
	"fmt"
	"io"
	"net/http"
	"net/http/httptest"
	"strings"
	"sync"
	"testing"
	"time"

	jsonrpc "github.com/filecoin-project/go-jsonrpc"
	"github.com/gorilla/websocket"
	"pgregory.net/rapid"
)

type c09Env struct {
	api *BasicAPI
	rpc *jsonrpc.RPCServer
	srv *httptest.Server
	mu  sync.Mutex // one case at a time (counters are per case)
}

func newC09Env(opts ...jsonrpc.ServerOption) *c09Env {
	e := &c09Env{api: NewBasicAPI()}
	e.rpc = jsonrpc.NewServer(opts...)
	e.rpc.Register("T", e.api)
	for a, to := range c09Aliases {
		e.rpc.AliasMethod(a, to)
	}
	e.srv = httptest.NewServer(e.rpc)
	return e
}

func (e *c09Env) Close() { closeTestServer(e.srv) }

type c09Case struct {
	Transport string   `json:"transport"` // "inproc", "http", "ws"
	Body      string   `json:"body,omitempty"`
	Frames    []string `json:"frames,omitempty"` // ws only
}

func (e *c09Env) runBody(c c09Case) *Violation {
	e.mu.Lock()
	defer e.mu.Unlock()
	e.api.Snapshot()
	var reply []byte
	switch c.Transport {
	case "inproc":
		var buf bytes.Buffer
		e.rpc.HandleRequest(context.Background(), strings.NewReader(c.Body), &buf)
		reply = buf.Bytes()
	case "http":
		resp, err := http.Post(e.srv.URL, "application/json", strings.NewReader(c.Body))
		if err != nil {
			return nil // harness-side transport trouble is not a verdict
		}
		reply, _ = io.ReadAll(resp.Body)
		resp.Body.Close()
	case "http-chunked":
		// a body of undeclared length (Transfer-Encoding: chunked), as streaming clients and some proxies send it
		resp, err := http.Post(e.srv.URL, "application/json", onlyReader{strings.NewReader(c.Body)})
		if err != nil {
			return nil
		}
		reply, _ = io.ReadAll(resp.Body)
		resp.Body.Close()
	}
	calls := e.api.Snapshot()
	return checkHTTPReply([]byte(c.Body), reply, calls)
}

// ---- WebSocket: one response frame per valid-id request frame, none for notifications

func (e *c09Env) runWS(c c09Case) *Violation {
	e.mu.Lock()
	defer e.mu.Unlock()
	e.api.Snapshot()
	conn, _, err := websocket.DefaultDialer.Dial("ws"+strings.TrimPrefix(e.srv.URL, "http"), nil)
	if err != nil {
		return nil
	}
	defer conn.Close()

	type want struct {
		e reqElem
		x elemExpect
	}
	wantByID := map[string][]want{}
	nWant := 0
	wantRuns := map[string]int{}
	lenient := false
	lenientIDs := map[string]int{}
	idKey := func(s *string, f *float64) string {
		if s != nil {
			return "s:" + *s
		}
		return fmt.Sprintf("n:%v", *f)
	}
	for _, f := range c.Frames {
		bc := classifyBody([]byte(f))
		modelled := bc.kind == "single" && !bc.lenient && bc.elems[0].method != ""
		if m := bc.elems; bc.kind == "single" && (m[0].method == "xrpc.cancel" || m[0].method == "xrpc.ch.val" || m[0].method == "xrpc.ch.close") {
			continue // the three protocol-internal methods with arbitrary params are C10's subject; not sent here
		}
		if !modelled {
			lenient = true // dropped or undefined: statement silent; the server still must not emit malformed frames
			// such a frame may still be answered (e.g. duplicate member names): remember its id so that the answer
			// is not counted against a modelled frame that happens to use the same id
			var loose map[string]json.RawMessage
			if json.Unmarshal([]byte(f), &loose) == nil {
				for key, raw := range loose {
					if strings.EqualFold(key, "id") {
						var sv string
						var fv float64
						if json.Unmarshal(raw, &sv) == nil {
							lenientIDs["s:"+sv]++
						} else if json.Unmarshal(raw, &fv) == nil {
							lenientIDs[fmt.Sprintf("n:%v", fv)]++
						}
					}
				}
			}
		} else {
			el := bc.elems[0]
			x := expectElem(el)
			if x.run != "" {
				wantRuns[x.run]++
			}
			if el.idKind == idValid {
				k := idKey(el.idStr, el.idNum)
				wantByID[k] = append(wantByID[k], want{el, x})
				nWant++
			}
		}
		if err := conn.WriteMessage(websocket.TextMessage, []byte(f)); err != nil {
			return nil
		}
	}
	got := map[string][]*respObj{}
	nGot, nNull := 0, 0
	readOne := func(d time.Duration) (*respObj, *Violation, bool) {
		_ = conn.SetReadDeadline(time.Now().Add(d))
		_, msg, err := conn.ReadMessage()
		if err != nil {
			return nil, nil, false
		}
		sh, v := parseReply(msg)
		if v != nil {
			return nil, v, true
		}
		if sh.empty || sh.array || len(sh.objs) != 1 {
			return nil, violf("ws-frame-not-response", "server frame is not one response object: %s", trunc(string(msg), 200)), true
		}
		return sh.objs[0], nil, true
	}
	sentinel := func(tag string) *Violation {
		id := "__sentinel_" + tag
		if err := conn.WriteMessage(websocket.TextMessage, []byte(`{"jsonrpc":"2.0","id":"`+id+`","method":"T.Add","params":[1,2]}`)); err != nil {
			return violf("ws-connection-lost", "connection unusable after the frame sequence: %v", err)
		}
		for {
			o, v, ok := readOne(5 * time.Second)
			if v != nil {
				return v
			}
			if !ok {
				return violf("ws-sentinel-unanswered", "valid request after the sequence got no response within 5s (have %d/%d responses)", nGot, nWant)
			}
			if o.idStr != nil && *o.idStr == id {
				return nil
			}
			if o.idNull {
				nNull++
				continue
			}
			k := idKey(o.idStr, o.idNum)
			got[k] = append(got[k], o)
			nGot++
		}
	}
	if v := sentinel("1"); v != nil {
		return v
	}
	// the sentinel may overtake slower handlers: wait for the stragglers (bounded), then use a second sentinel + grace to catch extras
	deadline := time.Now().Add(5 * time.Second)
	for nGot < nWant && time.Now().Before(deadline) {
		// (one read with the whole remaining allowance: after a timed-out read the connection object is unusable)
		o, v, ok := readOne(time.Until(deadline))
		if v != nil {
			return v
		}
		if !ok {
			break
		}
		if o.idNull {
			nNull++
			continue
		}
		k := idKey(o.idStr, o.idNum)
		got[k] = append(got[k], o)
		nGot++
	}
	e.api.Peek("Add") // touch
	if nGot >= nWant {
		if v := sentinel("2"); v != nil {
			return v
		}
		for {
			o, v, ok := readOne(20 * time.Millisecond)
			if v != nil {
				return v
			}
			if !ok {
				break
			}
			if o.idNull {
				nNull++
				continue
			}
			k := idKey(o.idStr, o.idNum)
			got[k] = append(got[k], o)
			nGot++
		}
	}
	for k, ws := range wantByID {
		if len(got[k]) < len(ws) || len(got[k]) > len(ws)+lenientIDs[k] {
			return violf("ws-response-count", "id %s: %d request frames, %d response frames", k, len(ws), len(got[k]))
		}
		if len(ws) == 1 && len(got[k]) == 1 {
			if v := checkRespAgainst(ws[0].e, ws[0].x, got[k][0]); v != nil {
				return v
			}
		}
	}
	for k, rs := range got {
		if len(wantByID[k]) == 0 && !lenient {
			return violf("ws-unsolicited-response", "response frame with id %s that no request frame carried (%d)", k, len(rs))
		}
	}
	if nNull > 0 && !lenient {
		return violf("ws-notification-answered", "%d response frames with id null although only notifications lack an id", nNull)
	}
	// notification handlers run asynchronously: wait (bounded) until the expected counts are reached
	if !lenient {
		wantRuns["Add"] += 2 // sentinels
		ok := false
		var calls map[string]int
		for i := 0; i < 100 && !ok; i++ {
			ok = true
			calls = map[string]int{}
			for _, m := range basicMethodNames {
				calls[m] = e.api.Peek(m)
				if calls[m] < wantRuns[m] {
					ok = false
				}
			}
			if !ok {
				time.Sleep(20 * time.Millisecond)
			}
		}
		for _, m := range basicMethodNames {
			if calls[m] != wantRuns[m] {
				return violf("ws-handler-run-count", "method %s ran %d times, expected %d", m, calls[m], wantRuns[m])
			}
		}
	}
	return nil
}

// ---- generators -----------------------------------------------------------

var c09IDLits = []string{
	"1", "0", "-1", "42", "9007199254740992", "-9007199254740991", "1.5", "-0.25", "1e3", "2.5e-1", "1E2", "-0", "4294967296", "0.1", "123456789012", "1e21", "1.0",
	`"a"`, `""`, `"1"`, `"8116d306-56cc-4637-9dd7-39ce1548a5a0"`, `"é\n\"q\""`, `"<script>&"`, `"😀"`, `"null"`,
}
var c09BadIDs = []string{"true", "false", "[1]", "[]", "{}", `{"a":1}`}

func genIDLit(t *rapid.T) (string, bool) {
	switch rapid.IntRange(0, 11).Draw(t, "idkind") {
	case 0, 1:
		return "", false // absent
	case 2:
		return "null", true
	case 3:
		return rapid.SampledFrom(c09BadIDs).Draw(t, "badid"), true
	case 4, 5:
		return fmt.Sprintf("%d", rapid.IntRange(-5, 1000).Draw(t, "idint")), true
	case 6:
		return string(mustJSON(rapid.StringMatching(`[a-zA-Z0-9<>&"\\ é-]{0,12}`).Draw(t, "idstr"))), true
	default:
		return rapid.SampledFrom(c09IDLits).Draw(t, "idlit"), true
	}
}

var c09JSONVals = []string{"1", "-7", "2.5", `"s"`, `""`, "true", "null", "[]", "[1]", "{}", `{"a":3,"b":"x","c":[1,2]}`, `{"a":"notint"}`, "1e400", "9223372036854775808", `" <>&"`, "[[[]]]"}

func genJSONVal(t *rapid.T, label string) string {
	return rapid.SampledFrom(c09JSONVals).Draw(t, label)
}

func genMethodAndParams(t *rapid.T) (string, *string) {
	s := func(x string) *string { return &x }
	mk := rapid.IntRange(0, 13).Draw(t, "mkind")
	var method string
	switch {
	case mk <= 8:
		method = "T." + basicMethodNames[mk]
	case mk == 9:
		method = rapid.SampledFrom([]string{"alias.add", "alias.missing", "T.Echo", "größe.加", "tab\tname", strings.Repeat("long", 80)}).Draw(t, "alias")
	case mk == 10:
		method = rapid.SampledFrom([]string{"xrpc.cancel", "xrpc.ch.val", "xrpc.ch.close"}).Draw(t, "internal")
	default:
		method = rapid.SampledFrom([]string{"T.Missing", "t.add", "Add", "T.", "", "U.Add", "T.add", "T.Add ", "rpc.discover", "xrpc.status", "xrpc.", "xrpc.ch.open", "xrpc.cancel.all", "xrpcx", "T.Größe", "T.\u0001x", "T.加", strings.Repeat("T.VeryLongMethodName", 20), "T.Add\n"}).Draw(t, "unknown")
	}
	name, known := resolveBasic(method)
	pk := rapid.IntRange(0, 9).Draw(t, "pkind")
	if known && pk <= 5 {
		// right arity, mostly right types
		sig := basicSigs[name]
		if sig.raw {
			return method, s(genJSONVal(t, "rawparams"))
		}
		parts := []string{}
		for i, k := range sig.params {
			wrong := rapid.IntRange(0, 11).Draw(t, fmt.Sprintf("wrongtype%d", i)) == 0
			switch {
			case wrong:
				parts = append(parts, genJSONVal(t, "wrongval"))
			case k == "int":
				parts = append(parts, fmt.Sprintf("%d", rapid.IntRange(-1000, 1000).Draw(t, "pint")))
			case k == "string":
				parts = append(parts, string(mustJSON(rapid.SampledFrom([]string{"", "x", "<&>", "é ", "\"q\"\\", "line\nbreak", "😀"}).Draw(t, "pstr"))))
			default:
				parts = append(parts, rapid.SampledFrom([]string{`{"a":1,"b":"x","c":[1,2]}`, `{}`, `{"a":0,"b":"","c":null}`, `{"c":[]}`, `{"z":1}`}).Draw(t, "pobj"))
			}
		}
		if len(parts) == 0 {
			switch rapid.IntRange(0, 2).Draw(t, "noparams") {
			case 0:
				return method, nil
			case 1:
				return method, s("null")
			}
		}
		return method, s("[" + strings.Join(parts, ",") + "]")
	}
	switch pk {
	case 6:
		return method, nil
	case 7:
		n := rapid.IntRange(0, 4).Draw(t, "arity")
		parts := make([]string, n)
		for i := range parts {
			parts[i] = genJSONVal(t, "aval")
		}
		return method, s("[" + strings.Join(parts, ",") + "]")
	case 8:
		return method, s(rapid.SampledFrom([]string{"{}", `{"a":1}`, `"str"`, "5", "true", "null"}).Draw(t, "nonarray"))
	default:
		return method, s("[]")
	}
}

func ws(t *rapid.T) string {
	return rapid.SampledFrom([]string{"", "", "", " ", "\n", "\t ", "\r\n"}).Draw(t, "ws")
}

func genElem(t *rapid.T) string {
	id, hasID := genIDLit(t)
	method, params := genMethodAndParams(t)
	fields := []string{}
	switch rapid.IntRange(0, 9).Draw(t, "ver") {
	case 0:
	case 1:
		fields = append(fields, `"jsonrpc":"1.0"`)
	default:
		fields = append(fields, `"jsonrpc":"2.0"`)
	}
	if hasID {
		fields = append(fields, `"id":`+ws(t)+id)
	}
	if !(method == "" && rapid.Bool().Draw(t, "omitmethod")) {
		fields = append(fields, `"method":`+string(mustJSON(method)))
	}
	if params != nil {
		fields = append(fields, `"params":`+ws(t)+*params)
	}
	perm := rapid.Permutation(fields).Draw(t, "order")
	return "{" + ws(t) + strings.Join(perm, ","+ws(t)) + ws(t) + "}"
}

var c09Alphabet = []byte(`{}[]",:\ 0123456789.-+eEtfn` + "\n\tabTx")

func mutate(t *rapid.T, s string) string {
	b := []byte(s)
	n := rapid.IntRange(1, 3).Draw(t, "nmut")
	for i := 0; i < n; i++ {
		if len(b) == 0 {
			b = append(b, rapid.SampledFrom(c09Alphabet).Draw(t, "ins"))
			continue
		}
		pos := rapid.IntRange(0, len(b)-1).Draw(t, "pos")
		switch rapid.IntRange(0, 4).Draw(t, "op") {
		case 0:
			b = append(b[:pos], b[pos+1:]...)
		case 1:
			b = append(b[:pos], append([]byte{rapid.SampledFrom(c09Alphabet).Draw(t, "ins")}, b[pos:]...)...)
		case 2:
			b[pos] = rapid.SampledFrom(c09Alphabet).Draw(t, "rep")
		case 3:
			b = b[:pos]
		case 4:
			end := rapid.IntRange(pos, len(b)).Draw(t, "end")
			b = append(b[:end], append(append([]byte{}, b[pos:end]...), b[end:]...)...)
		}
	}
	return string(b)
}

func genBody(t *rapid.T) string {
	var body string
	switch k := rapid.IntRange(0, 19).Draw(t, "bodykind"); {
	case k <= 5:
		body = genElem(t)
	case k <= 15:
		n := rapid.IntRange(1, 6).Draw(t, "batchlen")
		els := make([]string, n)
		for i := range els {
			if rapid.IntRange(0, 24).Draw(t, "nonobj") == 0 {
				els[i] = rapid.SampledFrom([]string{"1", `"x"`, "null", "[]", "true"}).Draw(t, "nonobjval")
			} else {
				els[i] = genElem(t)
			}
		}
		body = "[" + ws(t) + strings.Join(els, ws(t)+","+ws(t)) + ws(t) + "]"
	case k == 16:
		body = rapid.SampledFrom([]string{"", " ", "\n\t", "[]", "[ ]", "{}", "5", `"x"`, "null", "true", "[", "]", "{", "[,]", "[1,]", `{"jsonrpc":"2.0"`}).Draw(t, "special")
	default:
		body = mutate(t, genBody0(t))
	}
	return ws(t) + body + ws(t)
}

func genBody0(t *rapid.T) string {
	if rapid.Bool().Draw(t, "mutbatch") {
		n := rapid.IntRange(1, 3).Draw(t, "mbatchlen")
		els := make([]string, n)
		for i := range els {
			els[i] = genElem(t)
		}
		return "[" + strings.Join(els, ",") + "]"
	}
	return genElem(t)
}

func c09Classes(body string) (bool, []string) {
	bc := classifyBody([]byte(body))
	cl := []string{"body_" + bc.kind}
	if bc.lenient {
		cl = append(cl, "lenient_model")
	}
	nt := false
	kinds := map[idKind]bool{}
	for _, e := range bc.elems {
		kinds[e.idKind] = true
		if e.idNum != nil && *e.idNum != float64(int64(*e.idNum)) {
			cl = append(cl, "fraction_id")
			nt = true
		}
		if e.idStr != nil {
			cl = append(cl, "string_id")
			nt = true
		}
		if e.idKind == idInvalid {
			cl = append(cl, "invalid_id")
		}
	}
	if bc.kind == "batch" {
		if (kinds[idAbsent] || kinds[idNullK]) && len(bc.elems) >= 1 {
			cl = append(cl, "batch_with_notification")
			nt = true
		}
		if kinds[idInvalid] {
			cl = append(cl, "batch_with_invalid_id")
			nt = true
		}
		if len(bc.elems) >= 2 && len(kinds) >= 2 {
			nt = true
		}
		allNotif := true
		for _, e := range bc.elems {
			if e.idKind != idAbsent {
				allNotif = false
			}
		}
		if allNotif {
			cl = append(cl, "batch_all_notifications")
		}
	}
	return nt, cl
}

const c09Rule = "bodies from a JSON-RPC grammar (single/batch/empty/padded; ids absent/null/int/fraction/exponent/string/invalid; params absent/null/array/object/wrong arity/wrong types; registered/aliased/unknown/internal methods) plus byte-level mutations, through HandleRequest, real HTTP (declared length and chunked) and raw WebSocket frames; a notification whose handler runs is never answered, whatever the handler returns. Non-trivial = batch with >=2 elements of different id kinds, or a notification or invalid id inside a batch, or a string/fractional id; distinct by hash of (transport, body)"

func TestC09(t *testing.T) {
	rec := NewRec("C09", c09Rule)
	defer rec.Finish(t)
	rec.RequireClass("cancelled_call_ws", "cancelled_call_inproc", "batch_with_notification", "batch_with_invalid_id", "fraction_id", "string_id", "body_malformed", "body_empty", "body_emptybatch", "batch_all_notifications", "transport_http", "transport_http-chunked", "transport_ws")
	env := newC09Env()
	defer env.Close()

	t.Run("cancelled", func(t *testing.T) {
		for _, via := range []string{"inproc", "ws"} {
			for _, id := range []string{"7", `"abc"`, "2.5", "0"} {
				for _, wrap := range []bool{false, true} {
					c := c09CancelCase{Via: via, ID: id, Wrap: wrap, Batch: via == "inproc" && id == "7"}
					rec.Run(t, c, true, []string{"cancelled_call_" + via}, func() *Violation { return runC09Cancel(c) })
				}
			}
		}
	})

	run := func(ft failer, c c09Case) {
		var nt bool
		var cl []string
		if c.Transport == "ws" {
			for _, f := range c.Frames {
				n, k := c09Classes(f)
				nt = nt || n
				cl = append(cl, k...)
			}
			nt = nt || len(c.Frames) >= 2
		} else {
			nt, cl = c09Classes(c.Body)
		}
		cl = append(cl, "transport_"+c.Transport)
		rec.Run(ft, c, nt, cl, func() *Violation {
			if c.Transport == "ws" {
				v := env.runWS(c)
				if v != nil && (v.Key == "ws-sentinel-unanswered" || v.Key == "ws-response-count" || v.Key == "ws-handler-run-count") {
					// bound-based verdicts are confirmed by a second run
					if v2 := env.runWS(c); v2 == nil {
						rec.Class("unconfirmed_timeout", 1)
						return nil
					}
				}
				return v
			}
			return env.runBody(c)
		})
	}

	// deterministic grid: every pair/triple of element kinds at every batch position
	rec.Regress(t, func(raw json.RawMessage) *Violation {
		var c c09Case
		if json.Unmarshal(raw, &c) != nil {
			return nil
		}
		if c.Transport == "ws" {
			return env.runWS(c)
		}
		return env.runBody(c)
	})
	t.Run("grid", func(t *testing.T) {
		kinds := []string{
			`{"jsonrpc":"2.0","id":%ID%,"method":"T.Add","params":[1,2]}`,
			`{"jsonrpc":"2.0","method":"T.Add","params":[3,4]}`,
			`{"jsonrpc":"2.0","id":true,"method":"T.Add","params":[1,2]}`,
			`{"jsonrpc":"2.0","id":%ID%,"method":"T.Missing"}`,
			`{"jsonrpc":"2.0","method":"T.Missing"}`,
			`{"jsonrpc":"2.0","id":%ID%,"method":"T.Add","params":[1]}`,
			`{"jsonrpc":"2.0","id":%ID%,"method":"T.Fail","params":[7]}`,
			`{"jsonrpc":"2.0","id":null,"method":"T.Nop"}`,
			`{"jsonrpc":"2.0","method":"T.Fail","params":[1]}`,
			`{"jsonrpc":"2.0","id":%ID%,"method":"T.Nop"}`,
		}
		ids := []string{"1", `"s"`, "2.5", "1e3", "-3", `"é"`}
		fill := func(k string, n int) string { return strings.ReplaceAll(k, "%ID%", ids[n%len(ids)]) }
		n := 0
		for i := range kinds {
			run(t, c09Case{Transport: "inproc", Body: fill(kinds[i], n)})
			run(t, c09Case{Transport: "inproc", Body: "[" + fill(kinds[i], n) + "]"})
			for j := range kinds {
				n++
				b := "[" + fill(kinds[i], n) + "," + fill(kinds[j], n+1) + "]"
				run(t, c09Case{Transport: "inproc", Body: b})
				if thorough() || (i+j)%3 == 0 {
					run(t, c09Case{Transport: "http", Body: b})
				}
				if thorough() || (i+j)%3 == 1 {
					run(t, c09Case{Transport: "http-chunked", Body: b})
				}
				if !thorough() && j > 3 {
					continue
				}
				for k := range kinds {
					if !thorough() && k%3 != 0 {
						continue
					}
					n++
					run(t, c09Case{Transport: "inproc", Body: "[" + fill(kinds[i], n) + "," + fill(kinds[j], n+1) + "," + fill(kinds[k], n+2) + "]"})
				}
			}
		}
		for _, m := range []string{"größe.加", "tab\tname", strings.Repeat("long", 80), "T.Größe", "T.\u0001x", strings.Repeat("T.VeryLongMethodName", 20), "xrpc.status", "xrpc.", "xrpc.ch.open"} {
			for _, tr := range []string{"inproc", "http", "http-chunked"} {
				run(t, c09Case{Transport: tr, Body: `{"jsonrpc":"2.0","id":7,"method":` + string(mustJSON(m)) + `,"params":[1,2]}`})
			}
			run(t, c09Case{Transport: "ws", Frames: []string{`{"jsonrpc":"2.0","id":8,"method":` + string(mustJSON(m)) + `,"params":[1,2]}`}})
		}
		for _, b := range []string{"", " ", "[]", "[ ]", "{", "[", "}", "nul", `{"jsonrpc":"2.0","id":1,"method":"T.Add","params":[1,2]`, "[1]", "[1,2]", "5", `"x"`, "null", "{}", "[{}]", "[null]", "[[]]"} {
			run(t, c09Case{Transport: "inproc", Body: b})
			run(t, c09Case{Transport: "http", Body: b})
			run(t, c09Case{Transport: "http-chunked", Body: b})
		}
	})

	rec.Rapid(t, "rapid", func(rt *rapid.T) {
		tr := rapid.SampledFrom([]string{"inproc", "inproc", "inproc", "inproc", "inproc", "inproc", "inproc", "inproc", "inproc", "inproc", "inproc", "inproc", "inproc", "inproc", "inproc", "inproc", "inproc", "http", "http", "http-chunked", "ws"}).Draw(rt, "transport")
		if tr == "ws" {
			n := rapid.IntRange(1, 6).Draw(rt, "nframes")
			fr := make([]string, n)
			for i := range fr {
				if rapid.IntRange(0, 9).Draw(rt, "mutframe") == 0 {
					fr[i] = mutate(rt, genElem(rt))
				} else {
					fr[i] = genElem(rt)
				}
			}
			run(rt, c09Case{Transport: "ws", Frames: fr})
			return
		}
		run(rt, c09Case{Transport: tr, Body: genBody(rt)})
	})
}

func TestC09Replay(t *testing.T) {
	env := newC09Env()
	defer env.Close()
	Replay(t, "C09", 3, func(raw json.RawMessage) *Violation {
		var cc c09CancelCase
		if json.Unmarshal(raw, &cc) == nil && cc.Via != "" {
			return runC09Cancel(cc)
		}
		var c c09Case
		if err := json.Unmarshal(raw, &c); err != nil {
			return nil
		}
		if c.Transport == "ws" {
			return env.runWS(c)
		}
		return env.runBody(c)
	})
}

// FuzzC09: coverage-guided search over raw bodies with the same oracle.
func FuzzC09(f *testing.F) {
	for _, s := range []string{
		`{"jsonrpc":"2.0","id":1,"method":"T.Add","params":[1,2]}`,
		`[{"jsonrpc":"2.0","id":"a","method":"T.Echo","params":["x"]},{"jsonrpc":"2.0","method":"T.Nop"}]`,
		`[{"jsonrpc":"2.0","id":1.5,"method":"T.Fail","params":[3]},{"jsonrpc":"2.0","id":true,"method":"T.Nop"}]`,
		`{"jsonrpc":"2.0","id":null,"method":"T.Raw","params":{"a":[1,2,{"b":null}]}}`,
		`[]`, ``, `[1]`, `{"method":"alias.add","params":[1,2],"id":"x"}`,
	} {
		f.Add([]byte(s))
	}
	env := newC09Env()
	rec := NewRec("C09", c09Rule)
	f.Fuzz(func(t *testing.T, body []byte) {
		c := c09Case{Transport: "inproc", Body: string(body)}
		if v := env.runBody(c); v != nil && !rec.IsKnown(v.Key) {
			t.Fatalf("VERIF-VIOLATION property=C09 key=%s replay=- msg=%s", v.Key, oneLine(v.Msg))
		}
	})
}
