package harness

// C17 - keepalive keeps healthy links up and detects silent peers in bounded time.
//
// Generator: (ping, timeout) pairs with ping <= timeout/4 on the client, server
// ping off or below timeout/2; call durations 0.1-3 x timeout, paced streams
// longer than the timeout, idle gaps up to 3 x timeout; blackhole at a drawn
// point. Oracle: healthy => no call fails and the proxy sees one connection;
// silent peer => pending calls fail with the connection error and a redial
// reaches the proxy within 5 x timeout + 2 s. A failing case is re-run at 2x and
// 4x the time base and reported only if it fails at all three scales.

import (
	"context"
	"encoding/json"
	"errors"
	"fmt"
	"strings"
	"sync"
	"sync/atomic"
	"testing"
	"time"

	jsonrpc "github.com/filecoin-project/go-jsonrpc"
	"pgregory.net/rapid"
)

type c17Case struct {
	TimeoutMs    int     `json:"timeout_ms"`
	PingDiv      int     `json:"ping_div"`           // client ping = timeout / PingDiv (>= 4)
	PingPct      int     `json:"ping_pct,omitempty"` // > 0: client ping = timeout * PingPct / 100 instead (30..45: still below half the timeout)
	ServerPingMs int     `json:"server_ping_ms"`     // -1 = off (0 would mean the library default of 5 s)
	Scenario     string  `json:"scenario"`           // long_call | idle_then_call | stream | mixed | blackhole_pending | blackhole_idle
	Factor       float64 `json:"factor"`             // duration as a multiple of the timeout
	Scale        int     `json:"scale,omitempty"`
}

func runC17(c c17Case) *Violation {
	scale := c.Scale
	if scale < 1 {
		scale = 1
	}
	T := time.Duration(c.TimeoutMs*scale) * time.Millisecond
	bigResponse := c.Factor < 1.5
	if c.Scenario == "slow_reader_big_transfer" {
		// the pause spans three ping intervals of the writing side yet stays well below half the timeout; server pings are on
		// so that the client hears from the server as soon as the path resumes (a 16 MiB request occupies the server's reader)
		if c.PingDiv < 8 {
			c.PingDiv = 8
		}
		if c.ServerPingMs < 0 || c.ServerPingMs > c.TimeoutMs/8 {
			c.ServerPingMs = c.TimeoutMs / 8
		}
	}
	ping := T / time.Duration(c.PingDiv)
	if c.PingPct > 0 && c.Scenario != "slow_reader_big_transfer" {
		ping = T * time.Duration(c.PingPct) / 100
	}
	sp := time.Duration(c.ServerPingMs*scale) * time.Millisecond
	if c.ServerPingMs < 0 {
		sp = -1
	}
	opts := RigOpts{Reverse: c.Scenario == "long_blackhole_then_heal", ClientTimeout: T, ClientPing: ping, BackoffMin: 10 * time.Millisecond, BackoffMax: 40 * time.Millisecond, WithErrors: true}
	rig, err := newRigServerPing(opts, sp)
	if err != nil {
		return nil
	}
	defer rig.Close()
	cl, err := rig.NewClient("c")
	if err != nil {
		return nil
	}
	dur := time.Duration(c.Factor * float64(T))
	healthy := func() *Violation {
		if n := rig.Proxy.ConnCount(); n != 1 {
			return violf("healthy-link-dropped", "%s: the client reconnected on a healthy link (timeout %v, ping %v, server ping %v): %d connections at the proxy", c.Scenario, T, ping, sp, n)
		}
		return nil
	}
	switch c.Scenario {
	case "long_call", "mixed":
		p := rig.Go(cl, "call", rig.Tok("long"), Plan{Gate: true})
		var others []*Pending
		if c.Scenario == "mixed" {
			s := rig.Go(cl, "sub", rig.Tok("s"), Plan{N: 6, Pace: true})
			others = append(others, s)
			go func() {
				for i := 0; i < 6; i++ {
					time.Sleep(dur / 6)
					rig.W.Tick(s.Tok, 1)
				}
			}()
		}
		time.Sleep(dur)
		rig.W.Release(p.Tok)
		select {
		case <-p.Done:
		case <-time.After(3*time.Second + T):
			return violf("long-call-hangs", "a call lasting %v (timeout %v) did not return", dur, T)
		}
		if p.Err != nil {
			return violf("long-call-failed", "a call lasting %v on a healthy link failed (timeout %v, ping %v, server ping %v): %v", dur, T, ping, sp, p.Err)
		}
		if v := p.CheckOwn(); v != nil {
			return v
		}
		for _, s := range others {
			<-s.Done
			if s.Err != nil {
				return violf("subscription-failed", "subscription failed on a healthy link: %v", s.Err)
			}
			items, closed := drain(s.Ch, 3*time.Second+T)
			if !closed || len(items) != 6 {
				return violf("stream-broken-by-keepalive", "paced stream over %v delivered %d of 6 values (closed=%v) on a healthy link", dur, len(items), closed)
			}
		}
		return healthy()
	case "idle_then_call":
		time.Sleep(dur)
		if err := rig.Probe(cl, 3*time.Second+T); err != nil {
			return violf("call-after-idle-failed", "a call after %v of idleness failed (timeout %v, ping %v, server ping %v): %v", dur, T, ping, sp, err)
		}
		return healthy()
	case "stream":
		s := rig.Go(cl, "sub", rig.Tok("s"), Plan{N: 8, Pace: true})
		<-s.Done
		if s.Err != nil {
			return violf("subscription-failed", "subscription failed on a healthy link: %v", s.Err)
		}
		go func() {
			for i := 0; i < 8; i++ {
				time.Sleep(dur / 8)
				rig.W.Tick(s.Tok, 1)
			}
		}()
		items, closed := drain(s.Ch, dur+3*time.Second+T)
		if !closed || len(items) != 8 {
			return violf("stream-broken-by-keepalive", "paced stream over %v delivered %d of 8 values (closed=%v) on a healthy link", dur, len(items), closed)
		}
		return healthy()
	case "long_blackhole_then_heal":
		// silence for several timeouts while every redial is refused, then the path heals: the client must come back
		rig.Proxy.SetPolicy("reject")
		rig.Proxy.CutAll("blackhole")
		time.Sleep(time.Duration((2 + c.Factor) * float64(T)))
		rig.Proxy.SetPolicy("forward")
		bound := 5*T + 2*time.Second
		var last error
		for deadline := time.Now().Add(bound); time.Now().Before(deadline); {
			if last = rig.Probe(cl, time.Second); last == nil {
				return nil
			}
			time.Sleep(10 * time.Millisecond)
		}
		return violf("no-recovery-after-silence", "the path was silent for %v (redials refused) and then healed, but no call succeeded within %v afterwards (last error: %v)", time.Duration((2+c.Factor)*float64(T)), bound, last)
	case "slow_reader_big_transfer":
		// a healthy but momentarily slow link: a large response is in transit while nothing is drained for three ping intervals
		plan := Plan{Gate: true, Size: 16 << 20}
		writerPing := sp
		if !bigResponse {
			plan = Plan{Gate: true, Junk: strings.Repeat("j", 16<<20)}
			writerPing = ping
		}
		dir := "s2c"
		if !bigResponse {
			dir = "c2s"
		}
		// the connection has been up for a while (keepalives in both directions have started) when the transfer begins
		time.Sleep(writerPing + writerPing/2)
		// the path pauses once 2 MiB of the large message have passed, i.e. while its writer is in the middle of it
		armed := rig.Proxy.StallAfterBytes(dir, 2<<20)
		p := rig.Go(cl, "call", rig.Tok("big"), plan)
		go func() {
			if rig.W.WaitStarted(p.Tok, 10*time.Second) {
				rig.W.Release(p.Tok)
			}
		}()
		select {
		case <-armed:
		case <-p.Done:
			return violf("long-call-failed", "a call carrying 16 MiB ended before 2 MiB of it had crossed the link: %v", p.Err)
		case <-time.After(10 * time.Second):
			return nil // the transfer never got under way within the allowance: nothing to judge
		}
		pause := 3 * writerPing
		if pause > T/2 {
			pause = T / 2
		}
		time.Sleep(pause)
		rig.Proxy.Unstall()
		select {
		case <-p.Done:
		case <-time.After(5*time.Second + T):
			return violf("long-call-hangs", "a call carrying 16 MiB over a link that paused for %v (timeout %v, ping %v, server ping %v) never returned", pause, T, ping, sp)
		}
		if p.Err != nil {
			return violf("long-call-failed", "a call carrying 16 MiB over a link that paused for %v (timeout %v, ping %v, server ping %v) failed: %v", pause, T, ping, sp, p.Err)
		}
		if v := p.CheckOwn(); v != nil {
			return v
		}
		if err := rig.Probe(cl, 3*time.Second+T); err != nil {
			return violf("call-after-idle-failed", "a call after the slow transfer failed: %v", err)
		}
		return healthy()
	case "long_call_after_redial":
		// a reset and a successful redial first: keepalive must work on the second connection too
		rig.Proxy.CutAll("rst")
		ok := false
		for deadline := time.Now().Add(3 * time.Second); time.Now().Before(deadline); {
			if rig.Probe(cl, time.Second) == nil {
				ok = true
				break
			}
		}
		if !ok {
			return nil
		}
		n0 := rig.Proxy.ConnCount()
		p := rig.Go(cl, "call", rig.Tok("long2"), Plan{Gate: true})
		time.Sleep(dur)
		rig.W.Release(p.Tok)
		select {
		case <-p.Done:
		case <-time.After(3*time.Second + T):
			return violf("long-call-hangs", "a call lasting %v on a re-established connection did not return", dur)
		}
		if p.Err != nil {
			return violf("long-call-failed", "a call lasting %v on a re-established, healthy connection failed (timeout %v, ping %v, server ping %v): %v", dur, T, ping, sp, p.Err)
		}
		time.Sleep(dur / 2) // and an idle gap
		if err := rig.Probe(cl, 3*time.Second+T); err != nil {
			return violf("call-after-idle-failed", "a call after idleness on a re-established connection failed: %v", err)
		}
		if n := rig.Proxy.ConnCount(); n != n0 {
			return violf("healthy-link-dropped", "the client reconnected again on a healthy re-established link: %d -> %d connections", n0, n)
		}
		return nil
	case "steady_notifications":
		// one-way traffic only: a steady stream of notifications for longer than the timeout, nothing coming back
		end := time.Now().Add(dur)
		gap := ping / 2
		if sp > 0 && sp/3 < gap {
			gap = sp / 3
		}
		n := 0
		for time.Now().Before(end) {
			p := rig.Go(cl, "notify", rig.Tok("n"), Plan{})
			select {
			case <-p.Done:
			case <-time.After(2 * time.Second):
				return violf("notify-hangs", "a notification did not return on a healthy link")
			}
			if p.Err != nil {
				return violf("notify-failed", "notification %d of a steady one-way stream failed on a healthy link (timeout %v, ping %v, server ping %v): %v", n, T, ping, sp, p.Err)
			}
			n++
			time.Sleep(gap)
		}
		if err := rig.Probe(cl, 3*time.Second+T); err != nil {
			return violf("call-after-idle-failed", "a call after %v of one-way traffic failed: %v", dur, err)
		}
		return healthy()
	case "notification_storm":
		// the main loop is kept busy sending for longer than the timeout, with nothing but keepalives coming back
		d := dur
		if d < T+T/2 {
			d = T + T/2
		}
		end := time.Now().Add(d)
		var wg sync.WaitGroup
		var mu sync.Mutex
		var first *Violation
		for g := 0; g < 4; g++ {
			wg.Add(1)
			go func(g int) {
				defer wg.Done()
				tok := rig.Tok(fmt.Sprintf("storm%d", g))
				for n := 0; time.Now().Before(end); n++ {
					ctx, cancel := context.WithTimeout(context.Background(), 3*time.Second)
					err := cl.C.Notify(ctx, tok, Plan{})
					cancel()
					if err != nil {
						mu.Lock()
						if first == nil {
							first = violf("notify-failed", "notification %d of sender %d in a storm of back-to-back notifications failed on a healthy link (timeout %v, ping %v, server ping %v): %v", n, g, T, ping, sp, err)
						}
						mu.Unlock()
						return
					}
				}
			}(g)
		}
		if !bounded(d+8*time.Second, wg.Wait) {
			return violf("notify-hangs", "a storm of notifications did not finish on a healthy link")
		}
		if first != nil {
			return first
		}
		if err := rig.Probe(cl, 3*time.Second+T); err != nil {
			return violf("call-after-idle-failed", "a call after %v of back-to-back notifications failed: %v", d, err)
		}
		return healthy()
	case "blackhole_fresh_steady":
		// the peer falls silent right after the connection was established (nothing received on it yet) while the
		// application keeps issuing calls more often than the timeout
		t0 := time.Now()
		rig.Proxy.CutAll("blackhole")
		bound := 5*T + 2*time.Second
		var ps []*Pending
		stop := make(chan struct{})
		var mu sync.Mutex
		go func() {
			for {
				select {
				case <-stop:
					return
				case <-time.After(T / 4):
				}
				mu.Lock()
				ps = append(ps, rig.Go(cl, "call", rig.Tok("steady"), Plan{}))
				mu.Unlock()
			}
		}()
		defer close(stop)
		first := rig.Go(cl, "call", rig.Tok("first"), Plan{})
		select {
		case <-first.Done:
		case <-time.After(bound):
			return violf("silent-peer-not-detected", "the peer fell silent right after connecting; with calls issued every %v the first call had not failed after %v (timeout %v, ping %v)", T/4, bound, T, ping)
		}
		deadline := t0.Add(bound)
		for time.Now().Before(deadline) {
			if len(rig.Proxy.Accepts()) >= 2 {
				return nil
			}
			time.Sleep(5 * time.Millisecond)
		}
		return violf("no-redial-after-silence", "the peer fell silent right after connecting but no redial reached the proxy within %v", bound)
	case "blackhole_midframe_steady":
		// the peer falls silent in the middle of a message it is sending while the application keeps issuing calls more
		// often than the timeout: a read that is in progress must not keep the connection alive by itself
		if err := rig.Probe(cl, 3*time.Second); err != nil {
			return nil
		}
		rig.Proxy.AddFault(&Fault{Conn: 0, Dir: "s2c", Frame: rig.Proxy.FrameCounts()[0]["s2c"], Pos: "mid", Kind: "blackhole"})
		big := rig.Go(cl, "call", rig.Tok("big"), Plan{Size: 600000})
		if rig.Proxy.WaitFault(3*time.Second) == nil {
			return nil // the chosen frame was not the big response (a keepalive took its index): nothing to judge
		}
		t0 := time.Now()
		bound := 5*T + 2*time.Second
		stop := make(chan struct{})
		go func() {
			for {
				select {
				case <-stop:
					return
				case <-time.After(T / 4):
				}
				rig.Go(cl, "call", rig.Tok("steady"), Plan{})
			}
		}()
		defer close(stop)
		select {
		case <-big.Done:
		case <-time.After(bound):
			return violf("silent-peer-not-detected", "the peer fell silent in the middle of a %d-byte response; with calls issued every %v the pending call had not failed after %v (timeout %v, ping %v)", 600000, T/4, bound, T, ping)
		}
		if big.Err == nil {
			return nil // the whole response had already passed the proxy
		}
		deadline := t0.Add(bound)
		for time.Now().Before(deadline) {
			if len(rig.Proxy.Accepts()) >= 2 {
				rec17MidframeJudged()
				return nil
			}
			time.Sleep(5 * time.Millisecond)
		}
		return violf("no-redial-after-silence", "the peer fell silent in the middle of a message but no redial reached the proxy within %v", bound)
	case "blackhole_pending", "blackhole_idle":
		var ps []*Pending
		if c.Scenario == "blackhole_pending" {
			for i := 0; i < 3; i++ {
				ps = append(ps, rig.Go(cl, "call", rig.Tok("p"), Plan{Gate: true}))
			}
			for _, p := range ps {
				rig.W.WaitStarted(p.Tok, 2*time.Second)
			}
		}
		time.Sleep(time.Duration(c.Factor * float64(T) / 4))
		t0 := time.Now()
		rig.Proxy.CutAll("blackhole")
		// (silence is noticed one timeout after the last keepalive: three timeouts plus a second is ample at every scale)
		bound := 3*T + time.Second
		if c.Scenario == "blackhole_idle" {
			// nothing is pending; a call issued now must fail (or succeed after reconnect) within the bound
			ps = append(ps, rig.Go(cl, "call", rig.Tok("late"), Plan{}))
		}
		for _, p := range ps {
			select {
			case <-p.Done:
			case <-time.After(time.Until(t0.Add(bound))):
				return violf("silent-peer-not-detected", "the peer fell silent but a pending call had not failed after %v (timeout %v, ping %v)", bound, T, ping)
			}
			if p.Err == nil {
				if c.Scenario == "blackhole_idle" {
					continue // served after the reconnect
				}
				return violf("silent-peer-call-succeeded", "a call whose response was swallowed returned successfully")
			}
			var ce *jsonrpc.RPCConnectionError
			if c.Scenario == "blackhole_pending" && !errors.As(p.Err, &ce) {
				return violf("silent-peer-wrong-error", "pending call failed with %v instead of the connection error", p.Err)
			}
		}
		deadline := t0.Add(bound)
		for time.Now().Before(deadline) {
			if len(rig.Proxy.Accepts()) >= 2 {
				return nil
			}
			time.Sleep(5 * time.Millisecond)
		}
		return violf("no-redial-after-silence", "the peer fell silent but no redial reached the proxy within %v", bound)
	}
	return nil
}

func newRigServerPing(o RigOpts, sp time.Duration) (*Rig, error) {
	if sp < 0 {
		o.ServerPingOff = true
	} else {
		o.ServerPing = sp
	}
	return NewRig(o)
}

// confirm re-runs a failing case at 2x and 4x the time base: a broken deadline renewal fails at every scale, a starved scheduler does not.
func runC17Confirmed(c c17Case) (*Violation, bool) {
	v := runC17(c)
	if v == nil {
		return nil, false
	}
	for _, s := range []int{2, 4} {
		c2 := c
		c2.Scale = s
		if runC17(c2) == nil {
			return nil, true
		}
	}
	return v, false
}

func c17NT(c c17Case) (bool, []string) {
	cl := []string{"scenario_" + c.Scenario}
	if c.ServerPingMs < 0 {
		cl = append(cl, "server_ping_off")
	} else {
		cl = append(cl, "server_ping_on")
	}
	if c.Factor > 1 {
		cl = append(cl, "longer_than_timeout")
	}
	if c.PingPct > 0 {
		cl = append(cl, "ping_above_quarter_timeout")
	}
	if c.ServerPingMs > 0 && c.ServerPingMs*6 < c.TimeoutMs/c.PingDiv {
		cl = append(cl, "server_pings_much_more_often")
	}
	return c.Factor > 1 || strings.HasPrefix(c.Scenario, "blackhole"), cl
}

const c17Rule = "client timeout 600-1500 ms with ping = timeout/4..timeout/8 or 30-48 % of the timeout, server ping off or timeout/40..timeout/2.2; scenarios: one call lasting 0.1-3 x timeout, a call plus a paced stream, idleness of 0.5-3 x timeout followed by a call, a paced stream lasting 1.5-3 x timeout, blackhole with three calls pending, blackhole while idle followed by a call, blackhole in the middle of a 600 kB response while calls keep being issued, steady notifications, four senders of back-to-back notifications for at least 1.5 x timeout, a long call right after a redial, silence of 2-5 x timeout with redials refused followed by a healed path (client with a reverse handler), a 16 MiB request or response whose path pauses for three ping intervals of its writer (< timeout/2) in the middle of the transfer. Scenarios of the fixed grid run concurrently (each on its own server, proxy and client). Non-trivial = duration above the timeout, or a blackhole; distinct by descriptor hash"

var c17MidframeJudged int64

func rec17MidframeJudged() { atomic.AddInt64(&c17MidframeJudged, 1) }

func TestC17(t *testing.T) {
	rec := NewRec("C17", c17Rule)
	defer rec.Finish(t)
	defer func() {
		if atomic.LoadInt64(&c17MidframeJudged) > 0 {
			rec.Class("blackhole_midframe_judged", atomic.LoadInt64(&c17MidframeJudged))
		}
	}()
	rec.RequireClass("server_pings_much_more_often", "ping_above_quarter_timeout", "scenario_notification_storm", "scenario_long_blackhole_then_heal", "scenario_slow_reader_big_transfer", "scenario_long_call_after_redial", "scenario_steady_notifications", "scenario_blackhole_fresh_steady", "scenario_long_call", "scenario_idle_then_call", "scenario_stream", "scenario_mixed", "scenario_blackhole_pending", "scenario_blackhole_idle", "server_ping_off", "server_ping_on", "longer_than_timeout")
	var mu sync.Mutex
	var firstV *Violation
	var firstC c17Case
	runOne := func(c c17Case) {
		v, unconf := runC17Confirmed(c)
		nt, cl := c17NT(c)
		rec.Case(c, nt, cl...)
		if unconf {
			rec.Class("unconfirmed_at_larger_scale", 1)
		}
		if v != nil {
			mu.Lock()
			if firstV == nil {
				firstV, firstC = v, c
			}
			mu.Unlock()
		}
	}
	t.Run("grid", func(t *testing.T) {
		var cases []c17Case
		k := 0
		seed := envInt("VERIF_SEED", 1)
		for _, sc := range []string{"long_call", "mixed", "idle_then_call", "stream", "blackhole_pending", "blackhole_idle", "blackhole_fresh_steady", "blackhole_midframe_steady", "long_call_after_redial", "steady_notifications", "long_blackhole_then_heal", "slow_reader_big_transfer", "notification_storm"} {
			for _, f := range []float64{0.3, 1.6, 3.0} {
				for _, spOn := range []bool{false, true} {
					k++
					if !thorough() && (k+seed)%2 != 0 && f != 1.6 {
						continue
					}
					T := []int{600, 800, 1000}[(k+seed)%3]
					c := c17Case{TimeoutMs: T, PingDiv: 4 + (k+seed)%3*2, ServerPingMs: -1, Scenario: sc, Factor: f}
					if spOn {
						c.ServerPingMs = T / (3 + (k % 4))
					}
					if k%3 == 0 {
						c.PingPct = []int{35, 45, 30, 40}[(k/3)%4]
					}
					cases = append(cases, c)
				}
			}
		}
		// ping intervals between a quarter and a half of the timeout, keepalives being the only inbound traffic
		for _, pct := range []int{33, 35, 37, 42, 48} {
			for _, sc := range []string{"long_call", "idle_then_call"} {
				if !thorough() && (pct == 42 || pct == 48) && sc == "long_call" {
					continue
				}
				cases = append(cases, c17Case{TimeoutMs: 800, PingDiv: 4, PingPct: pct, ServerPingMs: -1, Scenario: sc, Factor: 2.5})
			}
		}
		// a server that pings much more often than the client does
		for _, sc := range []string{"long_call", "idle_then_call", "stream"} {
			cases = append(cases, c17Case{TimeoutMs: 800, PingDiv: 4, ServerPingMs: 20, Scenario: sc, Factor: 2.5})
		}
		sh, nsh := shard()
		var wg sync.WaitGroup
		sem := make(chan struct{}, 10)
		for i, c := range cases {
			if i%nsh != sh {
				continue
			}
			wg.Add(1)
			sem <- struct{}{}
			go func(c c17Case) {
				defer wg.Done()
				defer func() { <-sem }()
				runOne(c)
			}(c)
		}
		wg.Wait()
		if firstV != nil {
			rec.Report(t, firstC, firstV)
		}
	})
	rec.Rapid(t, "rapid", func(rt *rapid.T) {
		T := rapid.SampledFrom([]int{600, 800, 1000, 1500}).Draw(rt, "timeout")
		c := c17Case{TimeoutMs: T, PingDiv: rapid.IntRange(4, 8).Draw(rt, "pingdiv"), PingPct: rapid.SampledFrom([]int{0, 0, 30, 33, 35, 37, 42, 48}).Draw(rt, "pingpct"), ServerPingMs: -1,
			Scenario: rapid.SampledFrom([]string{"long_call", "mixed", "idle_then_call", "stream", "blackhole_pending", "blackhole_idle", "blackhole_fresh_steady", "long_call_after_redial", "steady_notifications", "long_blackhole_then_heal", "slow_reader_big_transfer", "notification_storm"}).Draw(rt, "scenario"),
			Factor:   float64(rapid.IntRange(1, 30).Draw(rt, "factor10")) / 10}
		if rapid.Bool().Draw(rt, "serverping") {
			c.ServerPingMs = int(float64(T) / (2.2 + float64(rapid.IntRange(0, 60).Draw(rt, "spdiv10"))/10))
			if rapid.IntRange(0, 4).Draw(rt, "spfast") == 0 {
				c.ServerPingMs = T / 40
			}
		}
		if c.Scenario == "stream" && c.Factor < 1.5 {
			c.Factor += 1.5
		}
		nt, cl := c17NT(c)
		rec.Run(rt, c, nt, cl, func() *Violation {
			v, unconf := runC17Confirmed(c)
			if unconf {
				rec.Class("unconfirmed_at_larger_scale", 1)
			}
			return v
		})
	})
}

func TestC17Replay(t *testing.T) {
	Replay(t, "C17", 1, func(raw json.RawMessage) *Violation {
		var c c17Case
		if err := json.Unmarshal(raw, &c); err != nil {
			return nil
		}
		v, _ := runC17Confirmed(c)
		return v
	})
}

var _ = fmt.Sprint
