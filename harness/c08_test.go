package harness

// C08 - every client channel terminates: closed once, nothing after close, prefix only.
//
// Generator: termination cause {handler closes, subscription context cancelled,
// connection fault (kind x position relative to the stream's frames), client
// closed} and pairs of causes racing; instant (before the channel-id response,
// after k of n values, racing the close notification, with values still
// buffered at a stalled consumer); trigger/delay hooks at closechans.begin,
// chan.sink, resp.found, reconnect.begin. Oracle: every channel handed to the
// caller is closed within a bound after the causes fired; what was received is
// an exact prefix of what was sent; the process survives (double close / send
// on closed channel would crash it); an erroring call leaves no live channel.

import (
	"context"
	"encoding/json"
	"fmt"
	"strings"
	"sync"
	"sync/atomic"
	"testing"
	"time"

	"pgregory.net/rapid"
)

type c08Sub struct {
	N       int  `json:"n"`
	Early   int  `json:"early"`
	Deliver int  `json:"deliver"`          // values released (ticks) before the causes fire
	Stalled bool `json:"stalled"`          // the consumer is not reading when the causes fire
	Ignore  bool `json:"ignore,omitempty"` // the handler ignores its context and keeps sending
	// KeepOpen (with CloseSome): this subscription's handler does not close its channel by itself
	KeepOpen bool `json:"keep_open,omitempty"`
}

type c08Case struct {
	Subs   []c08Sub    `json:"subs"`
	Causes []string    `json:"causes"` // handler_close | ctx_cancel | cut_fin | cut_rst | client_close | fault
	Fault  *Fault      `json:"fault,omitempty"`
	Rules  []*HookRule `json:"rules,omitempty"`
	// TriggerCut: fire a connection cut from inside a yield point (point, occurrence) and hold the library goroutine
	TrigPoint     string `json:"trig_point,omitempty"`
	TrigOcc       int    `json:"trig_occ,omitempty"`
	TrigHoldU     int    `json:"trig_hold_us,omitempty"`      // how long the library goroutine is held at the trigger point (default 2000)
	TrigCutDelayU int    `json:"trig_cut_delay_us,omitempty"` // the cut follows the trigger after this long (frames pile up behind the held goroutine meanwhile)
	// Stale: subscriptions on a first connection, a cut, new subscriptions on the re-established connection, then the
	// callers of some of the first generation cancel their (long dead) contexts
	Stale *c08Stale `json:"stale,omitempty"`
	// CloseSome: the handlers of the subscriptions not marked KeepOpen close their channels once they have sent
	// everything, whatever the causes: close notifications for some channels race the teardown that must close the rest
	CloseSome bool `json:"close_some,omitempty"`
	// Churn: a history of subscriptions opened, advanced, finished and cancelled on one healthy connection (channel ids
	// come and go while other channels stay open)
	Churn []c08ChurnOp `json:"churn,omitempty"`
	// RevStale > 0: a client-served (reverse-direction) stream whose producer is slow to notice the end of its context is
	// open when the connection is reset; after the redial a new reverse stream of RevStale elements is opened and only
	// then the old producer sends the rest of its values and closes. The new stream's consumer must see exactly its own values.
	RevStale int `json:"rev_stale,omitempty"`
}

func runC08RevStale(c c08Case) (*Violation, string) {
	rig, err := NewRig(RigOpts{Reverse: true, BackoffMin: 5 * time.Millisecond, BackoffMax: 20 * time.Millisecond})
	if err != nil {
		return nil, "rig"
	}
	defer rig.Close()
	cl, err := rig.NewClient("c")
	if err != nil {
		return nil, "client"
	}
	hooks.Reset(c.Rules...)
	defer hooks.Off()
	noted := func(tok string) bool {
		for t0 := time.Now(); time.Since(t0) < 4*time.Second; time.Sleep(2 * time.Millisecond) {
			if contains(rig.W.Notes(tok), "sticky-first") {
				return true
			}
		}
		return false
	}
	tokA := rig.Tok("revold")
	a := rig.Go(cl, "call", tokA, Plan{RevSticky: 4})
	if !noted(tokA) {
		return nil, "first reverse stream did not start"
	}
	rig.Proxy.CutAll("rst")
	select {
	case <-a.Done:
	case <-time.After(5 * time.Second):
		return nil, "call of the first generation still pending"
	}
	healed := false
	for t0 := time.Now(); time.Since(t0) < 5*time.Second; time.Sleep(5 * time.Millisecond) {
		if rig.Probe(cl, time.Second) == nil {
			healed = true
			break
		}
	}
	if !healed {
		return nil, "no reconnect"
	}
	tokB := rig.Tok("revnew")
	b := rig.Go(cl, "call", tokB, Plan{RevSticky: c.RevStale})
	if !noted(tokB) {
		return violf("stream-stalled", "a reverse-direction stream opened after the reconnect did not deliver its first value within 4s"), ""
	}
	// now the producer of the previous connection's stream wakes up, sends the rest of its values and closes
	rig.W.Release("revstream:" + tokA)
	time.Sleep(150 * time.Millisecond)
	rig.W.Release("revstream:" + tokB)
	select {
	case <-b.Done:
	case <-time.After(15 * time.Second):
		return violf("stream-stalled", "the handler consuming a reverse-direction stream opened after the reconnect did not finish within 15s"), ""
	}
	if b.Err != nil {
		return nil, "second call failed: " + b.Err.Error()
	}
	if want := fmt.Sprintf("stream-ok:%d", c.RevStale); !strings.Contains(b.Res.Rev, want) {
		key := "not-a-prefix"
		if strings.Contains(b.Res.Rev, "stream-closed-after") {
			key = "channel-closed-early"
		}
		return violf(key, "reverse-direction stream %s opened after a reconnect, while the producer of a stream from the previous connection was still at work: its consumer reports %q instead of %q", tokB, b.Res.Rev, want), ""
	}
	return nil, ""
}

type c08ChurnOp struct {
	Op  string `json:"op"`            // open | tick | finish | cancel
	Sub int    `json:"sub,omitempty"` // index into the subscriptions opened so far (taken modulo the number of live ones)
	N   int    `json:"n,omitempty"`   // open: stream length (2-7); tick: values to release
}

// runC08Churn: every channel sees exactly the prefix of its own handler's values that was released, in order, nothing
// from another stream, and is closed exactly when its handler finished or its context was cancelled, while subscriptions
// come and go around it.
func runC08Churn(c c08Case) (*Violation, string) {
	rig, err := NewRig(RigOpts{})
	if err != nil {
		return nil, "rig"
	}
	defer rig.Close()
	cl, err := rig.NewClient("c")
	if err != nil {
		return nil, "client"
	}
	hooks.Reset(c.Rules...)
	defer hooks.Off()
	type live struct {
		p        *Pending
		n, recvd int
	}
	var subs []*live
	recv := func(l *live, k int, what string) *Violation {
		for i := 0; i < k; i++ {
			select {
			case v, ok := <-l.p.Ch:
				if !ok {
					return violf("channel-closed-early", "channel of %s closed after %d of %d values %s", l.p.Tok, l.recvd, l.n, what)
				}
				if v.Tok != l.p.Tok || v.Seq != l.recvd {
					return violf("not-a-prefix", "channel of %s received %s/%d, expected its own seq %d %s", l.p.Tok, v.Tok, v.Seq, l.recvd, what)
				}
				l.recvd++
			case <-time.After(4 * time.Second):
				return violf("stream-stalled", "channel of %s delivered %d of %d values and then nothing for 4s %s", l.p.Tok, l.recvd, l.n, what)
			}
		}
		return nil
	}
	expectClosed := func(l *live, what string) *Violation {
		deadline := time.After(4 * time.Second)
		for {
			select {
			case v, ok := <-l.p.Ch:
				if !ok {
					return nil
				}
				if v.Tok != l.p.Tok || v.Seq != l.recvd || l.recvd >= l.n {
					return violf("invented-values", "channel of %s delivered %s/%d after %d of its %d values %s", l.p.Tok, v.Tok, v.Seq, l.recvd, l.n, what)
				}
				l.recvd++
			case <-deadline:
				return violf("channel-never-closed", "channel of %s still open 4s %s", l.p.Tok, what)
			}
		}
	}
	quiet := func(what string) *Violation {
		// nothing may arrive on a channel whose handler is waiting for a tick
		for _, l := range subs {
			select {
			case v, ok := <-l.p.Ch:
				if !ok {
					return violf("channel-closed-early", "channel of %s closed after %d of %d values although its handler neither finished nor was cancelled, %s", l.p.Tok, l.recvd, l.n, what)
				}
				return violf("invented-values", "channel of %s delivered %s/%d although its handler is waiting (it has %d of %d), %s", l.p.Tok, v.Tok, v.Seq, l.recvd, l.n, what)
			default:
			}
		}
		return nil
	}
	for step, op := range c.Churn {
		what := fmt.Sprintf("(step %d of the history, %s)", step+1, op.Op)
		if op.Op != "open" && len(subs) == 0 {
			continue
		}
		switch op.Op {
		case "open":
			n := op.N
			if n < 2 {
				n = 2
			}
			p := rig.Go(cl, "sub", rig.Tok("ch"), Plan{N: n, Early: 1, Pace: true})
			select {
			case <-p.Done:
			case <-time.After(4 * time.Second):
				return violf("subscribe-hangs", "a subscribing call on a healthy connection did not return within 4s %s", what), ""
			}
			if p.Err != nil {
				return violf("subscribe-failed", "subscription %s failed on a healthy connection: %v", p.Tok, p.Err), ""
			}
			l := &live{p: p, n: n}
			subs = append(subs, l)
			if v := recv(l, 1, what); v != nil {
				return v, ""
			}
		case "tick":
			l := subs[op.Sub%len(subs)]
			k := op.N
			if k < 1 {
				k = 1
			}
			if k > l.n-l.recvd-1 {
				k = l.n - l.recvd - 1 // keeps the stream unfinished
			}
			if k > 0 {
				rig.W.Tick(l.p.Tok, k)
				if v := recv(l, k, what); v != nil {
					return v, ""
				}
			}
		case "finish":
			i := op.Sub % len(subs)
			l := subs[i]
			rig.W.Tick(l.p.Tok, l.n-l.recvd)
			if v := recv(l, l.n-l.recvd, what); v != nil {
				return v, ""
			}
			if v := expectClosed(l, "after its handler sent everything and closed "+what); v != nil {
				return v, ""
			}
			subs = append(subs[:i], subs[i+1:]...)
		case "cancel":
			i := op.Sub % len(subs)
			l := subs[i]
			l.p.Cancel()
			if v := expectClosed(l, "after its context was cancelled "+what); v != nil {
				return v, ""
			}
			subs = append(subs[:i], subs[i+1:]...)
		}
		time.Sleep(2 * time.Millisecond)
		if v := quiet(what); v != nil {
			return v, ""
		}
	}
	for _, l := range subs {
		rig.W.Tick(l.p.Tok, l.n-l.recvd)
		if v := recv(l, l.n-l.recvd, "(end of the history)"); v != nil {
			return v, ""
		}
		if v := expectClosed(l, "after its handler sent everything and closed (end of the history)"); v != nil {
			return v, ""
		}
	}
	if err := rig.Probe(cl, 3*time.Second); err != nil {
		return violf("connection-wedged", "a call after the history failed: %v", err), ""
	}
	return nil, ""
}

type c08Stale struct {
	Before     int `json:"before"`      // subscriptions of the first generation (1-4)
	After      int `json:"after"`       // subscriptions opened after the reconnect (1-4)
	CancelMask int `json:"cancel_mask"` // which first-generation contexts get cancelled afterwards
	PlainCalls int `json:"plain_calls"` // unary calls issued before the first generation (shifts request ids against channel ids)
}

// runC08Stale: the second generation's channels must be unaffected by anything the owners of the first generation's
// (already closed) channels do: they deliver every later value and close when their handler closes.
func runC08Stale(c c08Case) (*Violation, string) {
	st := c.Stale
	rig, err := NewRig(RigOpts{BackoffMin: 5 * time.Millisecond, BackoffMax: 20 * time.Millisecond})
	if err != nil {
		return nil, "rig"
	}
	defer rig.Close()
	cl, err := rig.NewClient("c")
	if err != nil {
		return nil, "client"
	}
	hooks.Reset(c.Rules...)
	defer hooks.Off()
	for i := 0; i < st.PlainCalls; i++ {
		if err := rig.Probe(cl, 3*time.Second); err != nil {
			return nil, "probe"
		}
	}
	var first []*Pending
	for i := 0; i < st.Before; i++ {
		first = append(first, rig.Go(cl, "sub", rig.Tok("old"), Plan{N: 50, Early: 1, Pace: true, Linger: true}))
	}
	if out := AwaitReturn(first, 5*time.Second); len(out) > 0 {
		return nil, "first generation did not subscribe"
	}
	for _, p := range first {
		if p.Err != nil {
			return violf("subscribe-failed", "subscription %s failed on a healthy connection: %v", p.Tok, p.Err), ""
		}
	}
	rig.Proxy.CutAll("rst")
	// every channel of the first generation closes (the property's own clause), and the client comes back
	for _, p := range first {
		deadline := time.After(4 * time.Second)
	drain:
		for {
			select {
			case _, ok := <-p.Ch:
				if !ok {
					break drain
				}
			case <-deadline:
				return violf("channel-never-closed", "channel of %s still open 4s after its connection was reset", p.Tok), ""
			}
		}
	}
	healed := false
	for t0 := time.Now(); time.Since(t0) < 5*time.Second; time.Sleep(5 * time.Millisecond) {
		if rig.Probe(cl, time.Second) == nil {
			healed = true
			break
		}
	}
	if !healed {
		return nil, "no reconnect"
	}
	var second []*Pending
	for i := 0; i < st.After; i++ {
		second = append(second, rig.Go(cl, "sub", rig.Tok("new"), Plan{N: 6, Early: 1, Pace: true}))
	}
	if out := AwaitReturn(second, 5*time.Second); len(out) > 0 {
		return violf("subscribe-hangs", "a subscribing call on the re-established connection did not return within 5s"), ""
	}
	recvN := func(p *Pending, from, n int, what string) *Violation {
		for k := 0; k < n; k++ {
			select {
			case v, ok := <-p.Ch:
				if !ok {
					return violf("channel-closed-early", "channel of %s (opened after the reconnect) closed after %d of 6 values %s", p.Tok, from+k, what)
				}
				if v.Tok != p.Tok || v.Seq != from+k {
					return violf("not-a-prefix", "channel of %s received %s/%d, expected seq %d", p.Tok, v.Tok, v.Seq, from+k)
				}
			case <-time.After(4 * time.Second):
				return violf("stream-stalled", "channel of %s (opened after the reconnect) delivered %d of 6 values and then nothing for 4s %s", p.Tok, from+k, what)
			}
		}
		return nil
	}
	for _, p := range second {
		if p.Err != nil {
			return violf("subscribe-failed", "subscription %s failed on the re-established connection: %v", p.Tok, p.Err), ""
		}
		rig.W.Tick(p.Tok, 1)
		if v := recvN(p, 0, 2, "before anything else happened"); v != nil {
			return v, ""
		}
	}
	// the owners of the first generation now cancel their contexts
	cancelled := 0
	for i, p := range first {
		if st.CancelMask&(1<<i) != 0 {
			p.Cancel()
			cancelled++
		}
	}
	time.Sleep(30 * time.Millisecond)
	what := fmt.Sprintf("after %d callers of subscriptions from the previous connection cancelled their contexts", cancelled)
	for _, p := range second {
		rig.W.Tick(p.Tok, 4)
		if v := recvN(p, 2, 4, what); v != nil {
			return v, ""
		}
		select {
		case _, ok := <-p.Ch:
			if ok {
				return violf("invented-values", "channel of %s delivered more than the 6 values its handler sent", p.Tok), ""
			}
		case <-time.After(4 * time.Second):
			return violf("channel-never-closed", "channel of %s (opened after the reconnect) still open 4s after its handler closed it, %s", p.Tok, what), ""
		}
	}
	return nil, ""
}

func runC08(c c08Case) (*Violation, string) {
	if len(c.Churn) > 0 {
		return runC08Churn(c)
	}
	if c.RevStale > 0 {
		return runC08RevStale(c)
	}
	if c.Stale != nil {
		return runC08Stale(c)
	}
	rig, err := NewRig(RigOpts{BackoffMin: 5 * time.Millisecond, BackoffMax: 20 * time.Millisecond})
	if err != nil {
		return nil, "rig"
	}
	defer rig.Close()
	cl, err := rig.NewClient("c")
	if err != nil {
		return nil, "client"
	}
	rules := append([]*HookRule{}, c.Rules...)
	var trigFired int32
	if c.TrigPoint != "" {
		hold := 2000
		if c.TrigHoldU > 0 {
			hold = c.TrigHoldU
		}
		rules = append(rules, &HookRule{Point: c.TrigPoint, Occ: c.TrigOcc, Side: "client", HoldU: hold, Trigger: func() {
			atomic.StoreInt32(&trigFired, 1)
			if c.TrigCutDelayU > 0 {
				time.Sleep(time.Duration(c.TrigCutDelayU) * time.Microsecond)
			}
			rig.Proxy.CutAll("rst")
		}})
	}
	hooks.Reset(rules...)
	defer hooks.Off()
	if c.Fault != nil {
		f := *c.Fault
		f.Conn = 0
		rig.Proxy.AddFault(&f)
	}

	type sub struct {
		c08Sub
		tok    string
		ctx    context.Context
		cancel context.CancelFunc
		p      *Pending
		mu     sync.Mutex
		got    []Item
		closed bool
	}
	subs := make([]*sub, len(c.Subs))
	handlerCloses := false
	for _, cause := range c.Causes {
		if cause == "handler_close" {
			handlerCloses = true
		}
	}
	for i, sc := range c.Subs {
		s := &sub{c08Sub: sc, tok: rig.Tok(fmt.Sprintf("s%d", i))}
		s.ctx, s.cancel = context.WithCancel(context.Background())
		plan := Plan{N: sc.N, Early: sc.Early, Pace: true, Linger: sc.KeepOpen || (!handlerCloses && !c.CloseSome), IgnoreCtx: sc.Ignore}
		p := &Pending{Kind: "sub", Tok: s.tok, Done: make(chan struct{}), Issued: time.Now()}
		s.p = p
		go func() {
			defer close(p.Done)
			p.Ch, p.Err = cl.C.Sub(s.ctx, s.tok, plan)
		}()
		subs[i] = s
	}
	for _, s := range subs {
		select {
		case <-s.p.Done:
		case <-time.After(4 * time.Second):
			if c.Fault == nil && c.TrigPoint == "" {
				return violf("subscribe-hangs", "subscribing call %s did not return on a healthy connection", s.tok), ""
			}
		}
	}
	// readers (unless stalled): collect values until close
	reader := func(s *sub) {
		for it := range s.p.Ch {
			s.mu.Lock()
			s.got = append(s.got, it)
			s.mu.Unlock()
		}
		s.mu.Lock()
		s.closed = true
		s.mu.Unlock()
	}
	for _, s := range subs {
		if s.p.Returned() && s.p.Ch != nil && !s.Stalled {
			go reader(s)
		}
	}
	// deliver the first values
	for _, s := range subs {
		if s.Deliver > s.Early {
			rig.W.Tick(s.tok, s.Deliver-s.Early)
		}
	}
	// wait until they went through (bounded; a fault may already have struck)
	deadline := time.Now().Add(500 * time.Millisecond)
	for time.Now().Before(deadline) {
		all := true
		for _, s := range subs {
			want := s.Deliver
			if want > s.N {
				want = s.N
			}
			sent, _ := rig.W.Sent(s.tok)
			if sent < want {
				all = false
			}
			if !s.Stalled {
				s.mu.Lock()
				if len(s.got) < want {
					all = false
				}
				s.mu.Unlock()
			}
		}
		if all {
			break
		}
		time.Sleep(500 * time.Microsecond)
	}
	// fire the causes (together)
	var fire sync.WaitGroup
	closerOK := true
	for _, cause := range c.Causes {
		cause := cause
		fire.Add(1)
		go func() {
			defer fire.Done()
			switch cause {
			case "handler_close":
				for _, s := range subs {
					rig.W.Tick(s.tok, s.N+1) // run to the end; the handler then closes its channel
				}
			case "ctx_cancel":
				for _, s := range subs {
					s.cancel()
				}
			case "cut_fin":
				rig.Proxy.CutAll("fin")
			case "cut_rst":
				rig.Proxy.CutAll("rst")
			case "client_close":
				closerOK = cl.Close(5 * time.Second)
			}
		}()
	}
	fire.Wait()
	if !closerOK {
		return violf("closer-hang", "the client's closer did not return within 5s"), ""
	}
	if len(c.Causes) == 0 {
		// a positioned fault or a yield-point trigger needs traffic to be reached: release everything
		for _, s := range subs {
			rig.W.Tick(s.tok, s.N+1)
		}
		fired := false
		if c.Fault != nil && rig.Proxy.WaitFault(400*time.Millisecond) != nil {
			fired = true
		}
		if c.TrigPoint != "" {
			deadline := time.Now().Add(400 * time.Millisecond)
			for time.Now().Before(deadline) && atomic.LoadInt32(&trigFired) == 0 {
				time.Sleep(time.Millisecond)
			}
			fired = fired || atomic.LoadInt32(&trigFired) == 1
		}
		if !fired {
			rig.Proxy.CutAll("rst") // the chosen frame / occurrence does not exist in this run: cut after the stream instead
		}
	}
	// stalled consumers resume reading only now
	for _, s := range subs {
		if s.p.Returned() && s.p.Ch != nil && s.Stalled {
			go reader(s)
		}
	}
	// every channel handed to a caller must be closed
	deadline = time.Now().Add(4 * time.Second)
	for _, s := range subs {
		if !s.p.Returned() {
			select {
			case <-s.p.Done:
			case <-time.After(time.Until(deadline)):
				return violf("subscribe-hangs", "subscribing call %s never returned after %v", s.tok, c.Causes), ""
			}
		}
		if s.p.Ch == nil {
			continue
		}
		if s.p.Err != nil {
			// an erroring call must not leave a live channel behind
			if s.Stalled {
				// reader started above
			} else {
				go reader(s)
			}
		}
		for {
			s.mu.Lock()
			closed := s.closed
			s.mu.Unlock()
			if closed {
				break
			}
			if time.Now().After(deadline) {
				sent, hclosed := rig.W.Sent(s.tok)
				key := "channel-never-closed"
				if s.p.Err != nil {
					key = "live-channel-with-error"
				}
				return violf(key, "channel of %s still open 4s after %v (fault %+v, trigger %s#%d): received %d, handler sent %d (handler closed: %v), call error: %v; hook history: %v",
					s.tok, c.Causes, c.Fault, c.TrigPoint, c.TrigOcc, len(s.got), sent, hclosed, s.p.Err, hooks.History(25)), ""
			}
			time.Sleep(time.Millisecond)
		}
		// prefix only
		sent, _ := rig.W.Sent(s.tok)
		s.mu.Lock()
		got := append([]Item{}, s.got...)
		s.mu.Unlock()
		for i, it := range got {
			if it.Tok != s.tok || it.Seq != i {
				return violf("not-a-prefix", "channel of %s: element %d is %+v (not the %d-th value its handler sent)", s.tok, i, it, i), ""
			}
		}
		if len(got) > sent {
			return violf("invented-values", "channel of %s delivered %d values, its handler sent %d", s.tok, len(got), sent), ""
		}
		pure := len(c.Causes) == 1 && c.Causes[0] == "handler_close" && c.Fault == nil && c.TrigPoint == ""
		if pure && len(got) != s.N {
			return violf("close-before-last-value", "handler sent %d values and closed; the caller's channel closed after %d", s.N, len(got)), ""
		}
	}
	// handlers that ignore the cancellation keep sending: those values must be discarded without wedging
	// the connection, which must still serve a call (after reconnecting, if it was cut)
	if !contains(c.Causes, "client_close") {
		for _, s := range subs {
			if s.Ignore {
				rig.W.Tick(s.tok, s.N+1)
			}
		}
		// let the surplus values reach the client before probing (bounded; a wedged forwarder is caught by the probe)
		wait := time.Now().Add(time.Second)
		for _, s := range subs {
			for s.Ignore && time.Now().Before(wait) {
				if sent, _ := rig.W.Sent(s.tok); sent >= s.N {
					break
				}
				time.Sleep(time.Millisecond)
			}
		}
		time.Sleep(20 * time.Millisecond)
		var last error
		ok := false
		deadline := time.Now().Add(4 * time.Second)
		for time.Now().Before(deadline) && !ok {
			if last = rig.Probe(cl, time.Second); last == nil {
				// a second probe right behind it: the first may have overtaken queued stream values
				if last = rig.Probe(cl, time.Second); last == nil {
					ok = true
				}
			}
		}
		if !ok {
			return violf("connection-wedged-after-termination", "no call succeeds on the client within 4s after the streams terminated (%v): %v", c.Causes, last), ""
		}
	}
	return nil, ""
}

func c08NT(c c08Case) (bool, []string) {
	cl := []string{}
	if c.Stale != nil {
		cl = append(cl, "stale_owner_cancels")
		return true, cl
	}
	if c.RevStale > 0 {
		return true, append(cl, "reverse_stream_across_reconnect")
	}
	if len(c.Churn) > 0 {
		// non-trivial: a subscription is opened after another one has ended while a third is still open
		cl = append(cl, "churn")
		open, ended, reuse := 0, false, false
		for _, op := range c.Churn {
			switch op.Op {
			case "open":
				if ended && open > 0 {
					reuse = true
				}
				open++
			case "finish", "cancel":
				if open > 0 {
					open--
					ended = true
				}
			}
		}
		if reuse {
			cl = append(cl, "churn_open_after_end_with_others_open")
		}
		return reuse, cl
	}
	for _, x := range c.Causes {
		cl = append(cl, "cause_"+x)
	}
	if c.Fault != nil {
		cl = append(cl, "cause_fault", "fault_"+c.Fault.Kind+"_"+c.Fault.Pos)
	}
	if c.TrigPoint != "" {
		cl = append(cl, "trigger_"+c.TrigPoint)
	}
	if c.TrigCutDelayU > 0 {
		cl = append(cl, "queued_closes_race_teardown")
	}
	n := len(c.Causes)
	if c.Fault != nil {
		n++
	}
	if c.TrigPoint != "" {
		n++
	}
	nt := n >= 2
	for _, s := range c.Subs {
		if s.Stalled {
			cl = append(cl, "stalled_consumer")
		}
		if s.Ignore {
			cl = append(cl, "handler_ignores_ctx")
		}
		if s.Deliver > 0 && s.Deliver < s.N && (c.Fault != nil || contains(c.Causes, "cut_fin") || contains(c.Causes, "cut_rst")) {
			cl = append(cl, "fault_between_values")
			nt = true
		}
	}
	if n >= 2 {
		cl = append(cl, "racing_causes")
	}
	return nt, cl
}

func contains(s []string, x string) bool {
	for _, y := range s {
		if y == x {
			return true
		}
	}
	return false
}

const c08Rule = "1-3 paced subscriptions (length 0-40, early sends, k values delivered before the causes fire, consumer reading or stalled) x termination causes {handler closes, context cancelled, connection cut FIN/RST, client closed} alone and in racing pairs x positioned faults on the server->client frames of the stream (response, values, close notification; before/header/mid/last/after) x connection cuts triggered from inside the client's yield points (resp.found, chan.sink, closechans.begin, reconnect.begin, frame.read) with the library goroutine held for 2 ms. histories across a reconnect: 1-4 subscriptions on the first connection, a reset, 1-4 new subscriptions on the re-established connection, then the owners of a subset of the first generation cancel their contexts (the second generation must deliver every later value and close with its handler); a client-served stream whose producer outlives its connection, followed by a new client-served stream after the redial (the new consumer must see exactly its own values); churn histories on one healthy connection (open / advance / finish / cancel, 4-14 steps): every channel sees exactly the released prefix of its own stream and closes exactly when its handler finished or its context was cancelled while channel ids come and go around it. Non-trivial = a subscription opened after another ended while a third is open, or two causes racing, or a fault between two values; distinct by descriptor hash"

func TestC08(t *testing.T) {
	rec := NewRec("C08", c08Rule)
	defer rec.Finish(t)
	rec.EnableJournal()
	rec.RequireClass("reverse_stale_ran_to_the_end", "reverse_stream_across_reconnect", "churn_open_after_end_with_others_open", "stale_owner_cancels", "handler_ignores_ctx", "cause_handler_close", "cause_ctx_cancel", "cause_cut_rst", "cause_client_close", "cause_fault", "racing_causes", "fault_between_values", "stalled_consumer", "trigger_resp.found")
	run := func(ft failer, c c08Case) {
		nt, cl := c08NT(c)
		rec.Run(ft, c, nt, cl, func() *Violation {
			v, _ := runC08(c)
			if v != nil && v.Key != "not-a-prefix" && v.Key != "invented-values" {
				// bound-based verdicts are confirmed by a second run; cases that aim at a narrow window (a cut that
				// follows the trigger after a delay) get several attempts to hit it again
				tries := 1
				if c.TrigCutDelayU > 0 {
					tries = 10
				}
				confirmed := false
				for i := 0; i < tries && !confirmed; i++ {
					if v2, _ := runC08(c); v2 != nil {
						confirmed = true
					}
				}
				if !confirmed {
					rec.Class("unconfirmed", 1)
					return nil
				}
			}
			return v
		})
	}
	causes := []string{"handler_close", "ctx_cancel", "cut_fin", "cut_rst", "client_close"}
	rec.Regress(t, func(raw json.RawMessage) *Violation {
		var c c08Case
		if json.Unmarshal(raw, &c) != nil {
			return nil
		}
		v, _ := runC08(c)
		return v
	})
	t.Run("mixed-close-and-teardown", func(t *testing.T) {
		// some handlers close their channels by themselves while a cut (fired from inside the processing of one of those
		// close notifications) makes the teardown close the rest
		for _, hold := range []int{200, 2000} {
			var subs []c08Sub
			for i := 0; i < 40; i++ {
				subs = append(subs, c08Sub{N: 2, Early: 1, Deliver: 1, KeepOpen: i%2 == 0})
			}
			run(t, c08Case{Subs: subs, CloseSome: true, TrigPoint: "chan.close", TrigOcc: 4, TrigHoldU: hold, Rules: []*HookRule{{Point: "chan.close", Occ: 0, Side: "client", DelayU: 300}}})
		}
		// the frame executor is parked on one value for 6 ms while the rest of the values and the close notifications
		// pile up behind it; the connection is reset 3 ms into that; when the executor resumes, the queued close
		// notifications race the teardown that is closing the same table
		var subs []c08Sub
		for i := 0; i < 120; i++ {
			subs = append(subs, c08Sub{N: 2, Early: 1, Deliver: 1, KeepOpen: i%2 == 0})
		}
		for rep := 0; rep < scale(4, 12); rep++ {
			for _, occ := range []int{130, 150, 170} {
				run(t, c08Case{Subs: subs, CloseSome: true, TrigPoint: "chan.sink", TrigOcc: occ + rep, TrigHoldU: 6000, TrigCutDelayU: 3000})
			}
		}
	})
	t.Run("stale-owners", func(t *testing.T) {
		for _, st := range []c08Stale{{1, 1, 1, 0}, {1, 1, 1, 3}, {2, 2, 3, 1}, {3, 1, 2, 0}, {2, 3, 0, 2}, {4, 4, 15, 5}} {
			st := st
			run(t, c08Case{Stale: &st})
		}
	})
	t.Run("grid", func(t *testing.T) {
		sh, nsh := shard()
		k := 0
		one := []c08Sub{{N: 6, Early: 1, Deliver: 3}}
		for _, a := range causes {
			for _, stalled := range []bool{false, true} {
				k++
				if k%nsh == sh {
					run(t, c08Case{Subs: []c08Sub{{N: 6, Early: 1, Deliver: 3, Stalled: stalled}}, Causes: []string{a}})
				}
			}
			for _, b := range causes {
				if a < b {
					k++
					if k%nsh == sh {
						run(t, c08Case{Subs: []c08Sub{{N: 6, Early: 2, Deliver: 4}, {N: 3, Deliver: 1, Stalled: true}}, Causes: []string{a, b}})
					}
				}
			}
		}
		for _, stalled := range []bool{false, true} {
			run(t, c08Case{Subs: []c08Sub{{N: 80, Early: 1, Deliver: 3, Stalled: stalled, Ignore: true}}, Causes: []string{"ctx_cancel"}})
		}
		// positioned faults on the stream's server->client frames: 0 = response, 1.. = values
		for fr := 0; fr <= 4; fr++ {
			for _, pos := range faultPos {
				for _, kind := range []string{"fin", "rst"} {
					k++
					if k%nsh != sh || (!thorough() && (k+envInt("VERIF_SEED", 1))%3 != 0) {
						continue
					}
					run(t, c08Case{Subs: one, Fault: &Fault{Dir: "s2c", Frame: fr, Pos: pos, Kind: kind}})
				}
			}
		}
		// cuts fired from inside the client's own yield points
		for _, pt := range []string{"resp.found", "resp.delivered", "chan.sink", "chan.close", "closechans.begin", "reconnect.begin", "frame.read"} {
			for occ := 1; occ <= scale(2, 4); occ++ {
				k++
				if k%nsh == sh {
					run(t, c08Case{Subs: []c08Sub{{N: 5, Early: 1, Deliver: 5}}, TrigPoint: pt, TrigOcc: occ, Causes: []string{}})
				}
			}
		}
	})
	t.Run("churn", func(t *testing.T) {
		run(t, c08Case{Churn: []c08ChurnOp{{Op: "open", N: 4}, {Op: "open", N: 5}, {Op: "finish", Sub: 0}, {Op: "open", N: 3}, {Op: "tick", Sub: 0, N: 2}, {Op: "tick", Sub: 1, N: 1}, {Op: "finish", Sub: 1}, {Op: "finish", Sub: 0}}})
		run(t, c08Case{Churn: []c08ChurnOp{{Op: "open", N: 3}, {Op: "open", N: 3}, {Op: "open", N: 6}, {Op: "cancel", Sub: 1}, {Op: "open", N: 4}, {Op: "tick", Sub: 1, N: 3}, {Op: "cancel", Sub: 0}, {Op: "open", N: 2}, {Op: "open", N: 2}, {Op: "finish", Sub: 2}, {Op: "tick", Sub: 0, N: 1}}})
	})
	t.Run("reverse-stale", func(t *testing.T) {
		for _, n := range []int{2, 5, 9} {
			c := c08Case{RevStale: n}
			nt, cl := c08NT(c)
			rec.Run(t, c, nt, cl, func() *Violation {
				v, why := runC08RevStale(c)
				if v == nil && why == "" {
					rec.Class("reverse_stale_ran_to_the_end", 1) // a scenario that cannot start must not pass for one that held
				}
				return v
			})
		}
	})
	rec.Rapid(t, "rapid-churn", func(rt *rapid.T) {
		var c c08Case
		n := rapid.IntRange(4, 14).Draw(rt, "nops")
		for i := 0; i < n; i++ {
			switch rapid.IntRange(0, 6).Draw(rt, "op") {
			case 0, 1, 2:
				c.Churn = append(c.Churn, c08ChurnOp{Op: "open", N: rapid.IntRange(2, 7).Draw(rt, "len")})
			case 3:
				c.Churn = append(c.Churn, c08ChurnOp{Op: "tick", Sub: rapid.IntRange(0, 5).Draw(rt, "sub"), N: rapid.IntRange(1, 3).Draw(rt, "k")})
			case 4, 5:
				c.Churn = append(c.Churn, c08ChurnOp{Op: "finish", Sub: rapid.IntRange(0, 5).Draw(rt, "sub")})
			default:
				c.Churn = append(c.Churn, c08ChurnOp{Op: "cancel", Sub: rapid.IntRange(0, 5).Draw(rt, "sub")})
			}
		}
		run(rt, c)
	})
	rec.Rapid(t, "rapid", func(rt *rapid.T) {
		var c c08Case
		ns := rapid.IntRange(1, 3).Draw(rt, "nsubs")
		for i := 0; i < ns; i++ {
			l := fmt.Sprintf("s%d_", i)
			n := rapid.IntRange(0, 40).Draw(rt, l+"n")
			s := c08Sub{N: n, Early: rapid.IntRange(0, min(n, 3)).Draw(rt, l+"early"), Stalled: rapid.IntRange(0, 3).Draw(rt, l+"stalled") == 0}
			s.Deliver = rapid.IntRange(0, n).Draw(rt, l+"deliver")
			s.Ignore = rapid.IntRange(0, 3).Draw(rt, l+"ignore") == 0
			c.Subs = append(c.Subs, s)
		}
		nc := rapid.IntRange(0, 2).Draw(rt, "ncauses")
		for i := 0; i < nc; i++ {
			x := rapid.SampledFrom(causes).Draw(rt, fmt.Sprintf("cause%d", i))
			if !contains(c.Causes, x) {
				c.Causes = append(c.Causes, x)
			}
		}
		switch rapid.IntRange(0, 3).Draw(rt, "extra") {
		case 0:
			c.Fault = &Fault{Dir: rapid.SampledFrom([]string{"s2c", "s2c", "c2s"}).Draw(rt, "fdir"), Frame: rapid.IntRange(0, 8).Draw(rt, "fframe"), Pos: rapid.SampledFrom(faultPos).Draw(rt, "fpos"), Kind: rapid.SampledFrom([]string{"fin", "rst"}).Draw(rt, "fkind")}
		case 1:
			c.TrigPoint = rapid.SampledFrom([]string{"resp.found", "resp.delivered", "chan.sink", "chan.close", "closechans.begin", "reconnect.begin", "frame.read"}).Draw(rt, "trigpt")
			c.TrigOcc = rapid.IntRange(1, 6).Draw(rt, "trigocc")
		}
		if len(c.Causes) == 0 && c.Fault == nil && c.TrigPoint == "" {
			c.Causes = []string{"handler_close"}
		}
		if rapid.IntRange(0, 9).Draw(rt, "stalekind") == 0 {
			nb := rapid.IntRange(1, 4).Draw(rt, "stale_before")
			c = c08Case{Stale: &c08Stale{Before: nb, After: rapid.IntRange(1, 4).Draw(rt, "stale_after"), CancelMask: rapid.IntRange(0, 1<<nb-1).Draw(rt, "stale_mask"), PlainCalls: rapid.IntRange(0, 5).Draw(rt, "stale_plain")}}
		}
		nr := rapid.IntRange(0, 2).Draw(rt, "nrules")
		for i := 0; i < nr; i++ {
			c.Rules = append(c.Rules, &HookRule{Point: rapid.SampledFrom([]string{"closechans.begin", "chan.sink", "resp.found", "reconnect.begin", "frame.read"}).Draw(rt, fmt.Sprintf("pt%d", i)),
				Occ: rapid.IntRange(1, 4).Draw(rt, fmt.Sprintf("occ%d", i)), Side: "client", DelayU: rapid.SampledFrom([]int{200, 2000}).Draw(rt, fmt.Sprintf("d%d", i))})
		}
		run(rt, c)
	})
}

func TestC08Replay(t *testing.T) {
	Replay(t, "C08", 20, func(raw json.RawMessage) *Violation {
		var c c08Case
		if err := json.Unmarshal(raw, &c); err != nil {
			return nil
		}
		v, _ := runC08(c)
		return v
	})
}
