package harness

// C15 - when a connection ends the server cancels its handlers and lets go of it.
//
// Generator: end cause {client closer, FIN, RST, server-side context cancel} x a
// mix of handlers in progress {unary watching its context, unary finishing only
// after the connection is gone (any response size), notification, streaming,
// reverse-calling} x reaction time. Oracle: every captured handler context is
// Done; once all handlers have returned, the goroutine profile holds no
// goroutine carrying that connection's jrpc-uuid label.

import (
	"bytes"
	"encoding/json"
	"fmt"
	"regexp"
	"runtime/pprof"
	"sort"
	"strings"
	"testing"
	"time"

	"pgregory.net/rapid"
)

type c15Handler struct {
	Kind    string `json:"kind"`            // watch | late | notify | stream | reverse | latenotify | substart (a subscribing call whose handler returns its channel at about the moment the connection ends)
	Count   int    `json:"count,omitempty"` // substart: that many of them (default 1)
	Size    int    `json:"size,omitempty"`
	ReactMs int    `json:"react_ms,omitempty"`
}

type c15Case struct {
	Cause      string       `json:"cause"` // closer | fin | rst | server_ctx
	Handlers   []c15Handler `json:"handlers"`
	Empty      bool         `json:"empty,omitempty"`       // the peer sent an empty data frame some time before the connection ends
	Partial    bool         `json:"partial,omitempty"`     // the peer has sent the first fragment of a message and never completes it
	DupIDs     bool         `json:"dup_ids,omitempty"`     // the peer re-used the ids of calls that are still running for further calls (their handlers belong to the connection all the same)
	LateCancel bool         `json:"late_cancel,omitempty"` // the peer sent xrpc.cancel for ids the server is not handling (a cancel that arrives after its call was answered)
	Stall      bool         `json:"stall,omitempty"`       // the link stops moving data while a large response is being written (server pings every 40 ms)
}

var labelRe = regexp.MustCompile(`(?m)^(\d+) @.*\n# labels: (\{.*\})`)

// labelledGoroutines returns uuid -> number of goroutines for the given jrpc-mode, plus the raw profile.
func labelledGoroutines(mode string) (map[string]int, string) {
	var buf bytes.Buffer
	_ = pprof.Lookup("goroutine").WriteTo(&buf, 1)
	out := map[string]int{}
	for _, m := range labelRe.FindAllStringSubmatch(buf.String(), -1) {
		var lbl map[string]string
		if json.Unmarshal([]byte(m[2]), &lbl) != nil || lbl["jrpc-mode"] != mode {
			continue
		}
		n := 0
		fmt.Sscanf(m[1], "%d", &n)
		out[lbl["jrpc-uuid"]] += n
	}
	return out, buf.String()
}

func stacksFor(profile, uuid string) string {
	var out []string
	for _, blk := range strings.Split(profile, "\n\n") {
		if strings.Contains(blk, uuid) {
			lines := strings.Split(blk, "\n")
			if len(lines) > 14 {
				lines = lines[:14]
			}
			out = append(out, strings.Join(lines, " | "))
		}
	}
	sort.Strings(out)
	return strings.Join(out, " || ")
}

func runC15(c c15Case) (*Violation, string) {
	needRev := false
	for _, h := range c.Handlers {
		if h.Kind == "reverse" {
			needRev = true
		}
	}
	base, _ := labelledGoroutines("wsserver")
	opts := RigOpts{Reverse: needRev}
	if c.Stall {
		opts.ServerPing = 40 * time.Millisecond
	}
	rig, err := NewRig(opts)
	if err != nil {
		return nil, "rig"
	}
	defer rig.Close()
	cl, err := rig.NewClient("c")
	if err != nil {
		return nil, "client"
	}
	if cl.Rev != nil {
		cl.Rev.Gate = make(chan struct{})
		defer close(cl.Rev.Gate)
	}
	type hs struct {
		c15Handler
		p *Pending
	}
	var hsl []*hs
	var atEnd []*Pending // released together with the end cause
	for i, h := range c.Handlers {
		tok := rig.Tok(fmt.Sprintf("%s%d", h.Kind, i))
		var p *Pending
		switch h.Kind {
		case "substart":
			for k := 1; k < h.Count; k++ {
				extra := rig.Go(cl, "sub", rig.Tok(fmt.Sprintf("substart%d_%d", i, k)), Plan{Gate: true, N: 3, Early: 1})
				hsl = append(hsl, &hs{h, extra})
				atEnd = append(atEnd, extra)
			}
			p = rig.Go(cl, "sub", tok, Plan{Gate: true, N: 3, Early: 1})
			atEnd = append(atEnd, p)
		case "watch":
			p = rig.Go(cl, "call", tok, Plan{Gate: true, WatchCtx: true, ReactMs: h.ReactMs, Size: h.Size})
		case "late":
			p = rig.Go(cl, "call", tok, Plan{Gate: true, Size: h.Size})
		case "notify":
			p = rig.Go(cl, "notify", tok, Plan{Gate: true, WatchCtx: true, ReactMs: h.ReactMs})
		case "latenotify":
			p = rig.Go(cl, "notify", tok, Plan{Gate: true})
		case "stream":
			p = rig.Go(cl, "sub", tok, Plan{N: 3, Early: 1, Pace: true, Linger: true, ReactMs: h.ReactMs})
		case "reverse":
			p = rig.Go(cl, "call", tok, Plan{RevSlow: true, Size: h.Size})
		}
		hsl = append(hsl, &hs{h, p})
	}
	for _, h := range hsl {
		if !rig.W.WaitStarted(h.p.Tok, 3*time.Second) {
			return violf("handler-did-not-start", "%s handler %s did not start within 3s on a healthy connection", h.Kind, h.p.Tok), ""
		}
		if h.Kind == "reverse" {
			deadline := time.Now().Add(2 * time.Second)
			for !rig.W.InReverse(h.p.Tok) && time.Now().Before(deadline) {
				time.Sleep(time.Millisecond)
			}
		}
	}
	time.Sleep(2 * time.Millisecond)
	now, _ := labelledGoroutines("wsserver")
	var uuid string
	for u := range now {
		if _, old := base[u]; !old {
			uuid = u
		}
	}
	if uuid == "" {
		return nil, "server connection not found in the goroutine profile"
	}

	if c.Empty {
		rig.Proxy.InjectEmptyFrame()
		time.Sleep(3 * time.Millisecond)
		if err := rig.Probe(cl, 3*time.Second); err != nil {
			return violf("empty-frame-wedges-connection", "after an empty data frame from the peer a call on the same connection failed: %v", err), ""
		}
	}
	var dupToks []string
	if c.DupIDs {
		for id := 1; id <= 3; id++ {
			tok := rig.Tok("dup")
			rig.Proxy.InjectClientFrame(fmt.Sprintf(`{"jsonrpc":"2.0","id":%d,"method":"Tok.Call","params":[%q,{"gate":true,"watch_ctx":true}]}`, id, tok))
			if rig.W.WaitStarted(tok, time.Second) {
				dupToks = append(dupToks, tok)
			}
		}
	}
	if c.LateCancel {
		rig.Proxy.InjectClientFrame(`{"jsonrpc":"2.0","method":"xrpc.cancel","params":[987654]}`)
		rig.Proxy.InjectClientFrame(`{"jsonrpc":"2.0","method":"xrpc.cancel","params":["never-used"]}`)
		time.Sleep(3 * time.Millisecond)
	}
	if c.Partial && !c.Stall {
		rig.Proxy.InjectPartialFrame()
		time.Sleep(3 * time.Millisecond)
	}
	if c.Stall {
		// a handler starts writing 8 MiB while nothing is read on the other side; the server's pinger then queues
		// up behind that write
		big := rig.Go(cl, "call", rig.Tok("bigwrite"), Plan{Gate: true, Size: 8 << 20})
		rig.W.WaitStarted(big.Tok, 2*time.Second)
		rig.Proxy.CutAll("stall")
		rig.W.Release(big.Tok)
		hsl = append(hsl, &hs{c15Handler{Kind: "late", Size: 8 << 20}, big})
		// encoding 8 MiB takes a moment: wait until the write is under way and the pinger has queued up behind it
		for deadline := time.Now().Add(2 * time.Second); time.Now().Before(deadline); {
			_, prof := labelledGoroutines("wsserver")
			if strings.Contains(prof, "nextWriter") {
				break
			}
			time.Sleep(10 * time.Millisecond)
		}
		time.Sleep(150 * time.Millisecond)
	}
	if len(atEnd) > 0 {
		go func() {
			for _, p := range atEnd {
				rig.W.Release(p.Tok)
			}
		}()
		time.Sleep(time.Duration(len(atEnd)) * 2 * time.Microsecond)
	}
	switch c.Cause {
	case "closer":
		if !cl.Close(5 * time.Second) {
			return violf("closer-hang", "the client's closer did not return"), ""
		}
	case "fin":
		rig.Proxy.CutAll("fin")
	case "rst":
		rig.Proxy.CutAll("rst")
	case "server_ctx":
		rig.CancelServer()
	}
	if c.Cause != "closer" {
		// keep the client from reconnecting and muddying the census
		go cl.Close(5 * time.Second)
	}

	// 1. every handler context is cancelled
	deadline := time.Now().Add(3 * time.Second)
	for _, h := range hsl {
		ctx := rig.W.Ctx(h.p.Tok)
		if ctx == nil {
			continue // never reached the server
		}
		for ctx.Err() == nil && time.Now().Before(deadline) {
			time.Sleep(time.Millisecond)
		}
		if ctx.Err() == nil {
			return violf("handler-context-not-cancelled", "connection ended (%s) but the context of %s handler %s is still live after 3s", c.Cause, h.Kind, h.p.Tok), ""
		}
	}
	for _, tok := range dupToks {
		ctx := rig.W.Ctx(tok)
		for ctx.Err() == nil && time.Now().Before(deadline) {
			time.Sleep(time.Millisecond)
		}
		if ctx.Err() == nil {
			return violf("handler-context-not-cancelled", "connection ended (%s) but the context of handler %s, whose request re-used the id of a call still in progress, is still live after 3s", c.Cause, tok), ""
		}
		rig.W.Release(tok)
	}
	// 2. let the late finishers finish now (they will try to respond on a connection that is gone)
	for _, h := range hsl {
		rig.W.Release(h.p.Tok)
	}
	deadline = time.Now().Add(4 * time.Second)
	for _, h := range hsl {
		for rig.W.Running(h.p.Tok) && time.Now().Before(deadline) {
			time.Sleep(time.Millisecond)
		}
		if rig.W.Running(h.p.Tok) {
			key := "handler-never-returned"
			if h.Kind == "reverse" {
				key = "reverse-call-blocks-after-connection-end"
			}
			return violf(key, "%s handler %s is still running 4s after the connection ended (%s)", h.Kind, h.p.Tok, c.Cause), ""
		}
	}
	// 3. nothing of the connection is retained
	deadline = time.Now().Add(3 * time.Second)
	var prof string
	var n int
	for {
		var m map[string]int
		m, prof = labelledGoroutines("wsserver")
		n = m[uuid]
		if n == 0 {
			return nil, ""
		}
		if time.Now().After(deadline) {
			break
		}
		time.Sleep(5 * time.Millisecond)
	}
	first := stacksFor(prof, uuid)
	time.Sleep(500 * time.Millisecond)
	m, prof2 := labelledGoroutines("wsserver")
	if m[uuid] == 0 {
		return nil, ""
	}
	second := stacksFor(prof2, uuid)
	key := "goroutine-leak"
	if strings.Contains(second, "lazyWriter") {
		key = "lazywriter-leak"
	}
	same := "stacks unchanged between the two samples"
	if first != second {
		same = "stacks changed between the two samples"
	}
	return violf(key, "%d goroutine(s) labelled with the dead connection's jrpc-uuid remain 3.5s after all handlers returned (%s; cause %s): %s", m[uuid], same, c.Cause, trunc(second, 1500)), ""
}

func c15NT(c c15Case) (bool, []string) {
	cl := []string{"cause_" + c.Cause}
	if c.Empty {
		cl = append(cl, "empty_frame_before_end")
	}
	if c.Partial {
		cl = append(cl, "partial_message_pending")
	}
	if c.Stall {
		cl = append(cl, "stalled_write_at_end")
	}
	if c.DupIDs {
		cl = append(cl, "request_ids_reused_while_running")
	}
	if c.LateCancel {
		cl = append(cl, "late_cancel_before_end")
	}
	for _, h := range c.Handlers {
		cl = append(cl, "handler_"+h.Kind)
		if h.Size > 4096 {
			cl = append(cl, "large_response")
		}
	}
	return len(c.Handlers) >= 2, cl
}

var c15Kinds = []string{"watch", "late", "notify", "latenotify", "stream", "reverse", "substart"}
var c15Causes = []string{"closer", "fin", "rst", "server_ctx"}

const c15Rule = "end-of-connection cause {client closer (graceful close frame), FIN, RST, server-side context cancel} x 1-6 handlers in progress from {unary that watches its context (reaction time 0-50 ms), unary that finishes only after the connection is gone (response 0-40000 bytes), notification (both flavours), streaming into a returned channel, blocked in a reverse call, 1-200 subscribing calls whose handlers return their channels at about the moment the connection ends}; optionally preceded by xrpc.cancel frames for ids the server is not handling; census of goroutines by the library's per-connection pprof label. Complete grid of cause x single handler kind and cause x all pairs. Non-trivial = >=2 handlers in progress at connection end; distinct by descriptor hash"

func TestC15(t *testing.T) {
	rec := NewRec("C15", c15Rule)
	defer rec.Finish(t)
	rec.EnableJournal()
	rec.RequireClass("request_ids_reused_while_running", "late_cancel_before_end", "handler_substart", "partial_message_pending", "stalled_write_at_end", "empty_frame_before_end", "cause_closer", "cause_fin", "cause_rst", "cause_server_ctx", "handler_watch", "handler_late", "handler_notify", "handler_stream", "handler_reverse", "large_response")
	known := rec.IsKnown("lazywriter-leak")
	run := func(ft failer, c c15Case) {
		if known {
			var keep []c15Handler
			for _, h := range c.Handlers {
				if h.Kind == "late" || h.Kind == "reverse" {
					rec.Excluded()
					continue
				}
				keep = append(keep, h)
			}
			if len(keep) == 0 {
				return
			}
			c.Handlers = keep
		}
		nt, cl := c15NT(c)
		rec.Run(ft, c, nt, cl, func() *Violation {
			v, inc := runC15(c)
			if v != nil {
				if v2, _ := runC15(c); v2 == nil {
					rec.Class("unconfirmed", 1)
					return nil
				}
			}
			if inc != "" {
				rec.Class("undecided", 1)
			}
			return v
		})
	}
	rec.Regress(t, func(raw json.RawMessage) *Violation {
		var c c15Case
		if json.Unmarshal(raw, &c) != nil {
			return nil
		}
		v, _ := runC15(c)
		return v
	})
	t.Run("grid", func(t *testing.T) {
		sh, nsh := shard()
		k := 0
		for _, cause := range c15Causes {
			run(t, c15Case{Cause: cause, Handlers: []c15Handler{{Kind: "watch"}, {Kind: "stream"}}, Partial: true})
			if cause != "closer" {
				run(t, c15Case{Cause: cause, Handlers: []c15Handler{{Kind: "watch"}, {Kind: "notify"}}, Stall: true})
			}
			run(t, c15Case{Cause: cause, Handlers: []c15Handler{{Kind: "substart", Count: 200}, {Kind: "stream"}}})
			run(t, c15Case{Cause: cause, Handlers: []c15Handler{{Kind: "watch"}, {Kind: "notify"}, {Kind: "stream"}}, LateCancel: true})
			run(t, c15Case{Cause: cause, Handlers: []c15Handler{{Kind: "watch"}, {Kind: "watch"}, {Kind: "stream"}, {Kind: "watch"}}, DupIDs: true})
			for i, a := range c15Kinds {
				k++
				if k%nsh == sh {
					run(t, c15Case{Cause: cause, Handlers: []c15Handler{{Kind: a, Size: []int{0, 6000}[i%2], ReactMs: 5}}, Empty: i%2 == 1})
				}
				for j, b := range c15Kinds {
					if j < i {
						continue
					}
					k++
					if k%nsh != sh || (!thorough() && (k+envInt("VERIF_SEED", 1))%3 != 0) {
						continue
					}
					run(t, c15Case{Cause: cause, Handlers: []c15Handler{{Kind: a, Size: 100}, {Kind: b, Size: 9000, ReactMs: 10}}})
				}
			}
		}
	})
	rec.Rapid(t, "rapid", func(rt *rapid.T) {
		c := c15Case{Cause: rapid.SampledFrom(c15Causes).Draw(rt, "cause"), Empty: rapid.IntRange(0, 3).Draw(rt, "empty") == 0,
			Partial: rapid.IntRange(0, 3).Draw(rt, "partial") == 0, Stall: rapid.IntRange(0, 5).Draw(rt, "stall") == 0, LateCancel: rapid.IntRange(0, 3).Draw(rt, "latecancel") == 0, DupIDs: rapid.IntRange(0, 3).Draw(rt, "dupids") == 0}
		if c.Stall && (c.Cause == "closer" || c.Empty || c.Partial) {
			c.Stall = false // the closer / a probe would itself wait for the stalled link
		}
		n := rapid.IntRange(1, 6).Draw(rt, "nhandlers")
		for i := 0; i < n; i++ {
			c.Handlers = append(c.Handlers, c15Handler{Kind: rapid.SampledFrom(c15Kinds).Draw(rt, fmt.Sprintf("kind%d", i)),
				Size: rapid.SampledFrom([]int{0, 0, 100, 5000, 40000}).Draw(rt, fmt.Sprintf("size%d", i)), ReactMs: rapid.SampledFrom([]int{0, 0, 5, 50}).Draw(rt, fmt.Sprintf("react%d", i))})
			if h := &c.Handlers[len(c.Handlers)-1]; h.Kind == "substart" {
				h.Count = rapid.SampledFrom([]int{1, 3, 30, 200}).Draw(rt, fmt.Sprintf("count%d", i))
			}
		}
		run(rt, c)
	})
}

func TestC15Replay(t *testing.T) {
	Replay(t, "C15", 5, func(raw json.RawMessage) *Violation {
		var c c15Case
		if err := json.Unmarshal(raw, &c); err != nil {
			return nil
		}
		v, _ := runC15(c)
		return v
	})
}
