package harness

// C12 - dispatch by formatted name, then alias; bad arity or types never run a handler.
//
// Exhaustive over a small universe (namespaces x fixture types x formatter x
// alias table x every candidate method string), judged by a dispatch model
// written from the statement; plus arity 0..k+1 and one wrongly typed JSON
// value per parameter position; plus client/server agreement through
// NewCustomClient with the same formatter and through rpc_method tags.

import (
	"bytes"
	"context"
	"encoding/json"
	"fmt"
	"io"
	"reflect"
	"sort"
	"strings"
	"sync"
	"testing"

	jsonrpc "github.com/filecoin-project/go-jsonrpc"
	"pgregory.net/rapid"
)

type c12Log struct {
	mu   sync.Mutex
	runs []string // "<reg>/<Method>"
}

func (l *c12Log) hit(reg, m string) {
	l.mu.Lock()
	l.runs = append(l.runs, reg+"/"+m)
	l.mu.Unlock()
}
func (l *c12Log) take() []string {
	l.mu.Lock()
	defer l.mu.Unlock()
	r := l.runs
	l.runs = nil
	return r
}

type c12X struct {
	reg string
	log *c12Log
}

func (x *c12X) Get(v int) (int, error) { x.log.hit(x.reg, "Get"); return v + 100, nil }
func (x *c12X) Put(s string) error     { x.log.hit(x.reg, "Put"); return nil }
func (x *c12X) Shared() string         { x.log.hit(x.reg, "Shared"); return "X" }

type c12Y struct {
	reg string
	log *c12Log
}

func (y *c12Y) Get(v int) (int, error) { y.log.hit(y.reg, "Get"); return v + 200, nil }
func (y *c12Y) Only(a int, b string, c bool) (string, error) {
	y.log.hit(y.reg, "Only")
	return fmt.Sprintf("%d-%s-%v", a, b, c), nil
}
func (y *c12Y) Shared() string { y.log.hit(y.reg, "Shared"); return "Y" }
func (y *c12Y) Ctx(ctx context.Context, m map[string]int, p *BasicObj) (int, error) {
	y.log.hit(y.reg, "Ctx")
	return len(m), nil
}

// c12Z: narrow numeric parameter types (a literal outside the declared type's range does not decode into it)
type c12Z struct {
	reg string
	log *c12Log
}

func (z *c12Z) I8(v int8) int                  { z.log.hit(z.reg, "I8"); return int(v) }
func (z *c12Z) U8(v uint8) int                 { z.log.hit(z.reg, "U8"); return int(v) }
func (z *c12Z) I16(a string, v int16) int      { z.log.hit(z.reg, "I16"); return int(v) }
func (z *c12Z) U16(v uint16, b bool) int       { z.log.hit(z.reg, "U16"); return int(v) }
func (z *c12Z) I32(v int32) (int, error)       { z.log.hit(z.reg, "I32"); return int(v), nil }
func (z *c12Z) U32(v uint32) (int, error)      { z.log.hit(z.reg, "U32"); return int(v), nil }
func (z *c12Z) U64(v uint64) error             { z.log.hit(z.reg, "U64"); return nil }
func (z *c12Z) F32(v float32) error            { z.log.hit(z.reg, "F32"); return nil }
func (z *c12Z) Arr(v [2]int8, w []uint8) error { z.log.hit(z.reg, "Arr"); return nil }

var c12Methods = map[string][]string{"X": {"Get", "Put", "Shared"}, "Y": {"Ctx", "Get", "Only", "Shared"}, "Z": {"Arr", "F32", "I16", "I32", "I8", "U16", "U32", "U64", "U8"}}

// parameter kinds per method, for building right / wrong requests
var c12Params = map[string][]string{
	"X.Get": {"int"}, "X.Put": {"string"}, "X.Shared": {},
	"Y.Get": {"int"}, "Y.Only": {"int", "string", "bool"}, "Y.Shared": {}, "Y.Ctx": {"map", "ptrobj"},
	"Z.I8": {"int8"}, "Z.U8": {"uint8"}, "Z.I16": {"string", "int16"}, "Z.U16": {"uint16", "bool"}, "Z.I32": {"int32"}, "Z.U32": {"uint32"},
	"Z.U64": {"uint64"}, "Z.F32": {"float32"}, "Z.Arr": {"arr2int8", "bytes"},
}

var c12Good = map[string]string{"int": "7", "string": `"s"`, "bool": "true", "map": `{"k":1}`, "ptrobj": `{"a":1}`,
	"int8": "-8", "uint8": "8", "int16": "-16", "uint16": "16", "int32": "-32", "uint32": "32", "uint64": "64", "float32": "1.5", "arr2int8": "[1,-2]", "bytes": `"AQI="`}

func c12Decodes(kind, raw string) bool {
	switch kind {
	case "int":
		var v int
		return json.Unmarshal([]byte(raw), &v) == nil
	case "string":
		var v string
		return json.Unmarshal([]byte(raw), &v) == nil
	case "bool":
		var v bool
		return json.Unmarshal([]byte(raw), &v) == nil
	case "map":
		var v map[string]int
		return json.Unmarshal([]byte(raw), &v) == nil
	case "ptrobj":
		var v *BasicObj
		return json.Unmarshal([]byte(raw), &v) == nil
	case "int8":
		var v int8
		return json.Unmarshal([]byte(raw), &v) == nil
	case "uint8":
		var v uint8
		return json.Unmarshal([]byte(raw), &v) == nil
	case "int16":
		var v int16
		return json.Unmarshal([]byte(raw), &v) == nil
	case "uint16":
		var v uint16
		return json.Unmarshal([]byte(raw), &v) == nil
	case "int32":
		var v int32
		return json.Unmarshal([]byte(raw), &v) == nil
	case "uint32":
		var v uint32
		return json.Unmarshal([]byte(raw), &v) == nil
	case "uint64":
		var v uint64
		return json.Unmarshal([]byte(raw), &v) == nil
	case "float32":
		var v float32
		return json.Unmarshal([]byte(raw), &v) == nil
	case "arr2int8":
		var v [2]int8
		return json.Unmarshal([]byte(raw), &v) == nil
	case "bytes":
		var v []uint8
		return json.Unmarshal([]byte(raw), &v) == nil
	}
	return false
}

type c12Fmt struct {
	Name string
	F    jsonrpc.MethodNameFormatter `json:"-"`
}

var c12Formatters = []c12Fmt{
	{"default", jsonrpc.DefaultMethodNameFormatter},
	{"ns+lower", jsonrpc.NewMethodNameFormatter(true, jsonrpc.LowerFirstCharCase)},
	{"nons", jsonrpc.NewMethodNameFormatter(false, jsonrpc.OriginalCase)},
	{"nons+lower", jsonrpc.NewMethodNameFormatter(false, jsonrpc.LowerFirstCharCase)},
	{"custom_sep", func(ns, m string) string { return ns + "_" + m }},
	{"custom_upper", func(ns, m string) string { return strings.ToUpper(ns) + "::" + strings.ToUpper(m) }},
}

func c12Formatter(name string) jsonrpc.MethodNameFormatter {
	for _, f := range c12Formatters {
		if f.Name == name {
			return f.F
		}
	}
	return jsonrpc.DefaultMethodNameFormatter
}

type c12Reg struct {
	NS   string `json:"ns"`
	Type string `json:"type"` // "X" or "Y"
}

type c12Config struct {
	Regs      []c12Reg          `json:"regs"`
	Formatter string            `json:"formatter"`
	Aliases   map[string]string `json:"aliases"`
	// AliasFirst: the aliases are declared before the handlers are registered (resolution happens per request, so the
	// order of the two setup steps must not matter)
	AliasFirst bool `json:"alias_first,omitempty"`
}

type c12Case struct {
	Config c12Config `json:"config"`
	Kind   string    `json:"kind"` // "dispatch", "arity", "type", "client", "tag"
	Method string    `json:"method,omitempty"`
	// arity / type
	Params string `json:"params,omitempty"`
	// client
	NS    string `json:"ns,omitempty"`
	Field string `json:"field,omitempty"`
}

type c12Target struct {
	reg, typ, method string
}

// dispatch model: formatted name -> the registrations that claim it (more than one = ambiguous, any of them may run)
func c12Table(cfg c12Config) map[string][]c12Target {
	f := c12Formatter(cfg.Formatter)
	tab := map[string][]c12Target{}
	for _, r := range cfg.Regs {
		for _, m := range c12Methods[r.Type] {
			name := f(r.NS, m)
			tab[name] = append(tab[name], c12Target{reg: r.NS + ":" + r.Type, typ: r.Type, method: m})
		}
	}
	return tab
}

func c12Lookup(cfg c12Config, tab map[string][]c12Target, method string) []c12Target {
	if t, ok := tab[method]; ok {
		return t
	}
	if to, ok := cfg.Aliases[method]; ok {
		if t, ok := tab[to]; ok {
			return t
		}
	}
	return nil
}

type c12Server struct {
	rpc *jsonrpc.RPCServer
	log *c12Log
}

func c12Build(cfg c12Config) *c12Server {
	s := &c12Server{log: &c12Log{}}
	s.rpc = jsonrpc.NewServer(jsonrpc.WithServerMethodNameFormatter(c12Formatter(cfg.Formatter)))
	register := func() {
		for _, r := range cfg.Regs {
			reg := r.NS + ":" + r.Type
			if r.Type == "X" {
				s.rpc.Register(r.NS, &c12X{reg: reg, log: s.log})
			} else if r.Type == "Z" {
				s.rpc.Register(r.NS, &c12Z{reg: reg, log: s.log})
			} else {
				s.rpc.Register(r.NS, &c12Y{reg: reg, log: s.log})
			}
		}
	}
	alias := func() {
		keys := make([]string, 0, len(cfg.Aliases))
		for k := range cfg.Aliases {
			keys = append(keys, k)
		}
		sort.Strings(keys)
		for _, k := range keys {
			s.rpc.AliasMethod(k, cfg.Aliases[k])
		}
	}
	if cfg.AliasFirst {
		alias()
		register()
	} else {
		register()
		alias()
	}
	return s
}

func (s *c12Server) call(method, params string) (*respObj, []string, *Violation) {
	body := `{"jsonrpc":"2.0","id":1,"method":` + string(mustJSON(method)) + `,"params":` + params + `}`
	var buf bytes.Buffer
	s.log.take()
	s.rpc.HandleRequest(context.Background(), strings.NewReader(body), &buf)
	runs := s.log.take()
	sh, v := parseReply(buf.Bytes())
	if v != nil {
		return nil, runs, v
	}
	if sh.empty || sh.array || len(sh.objs) != 1 {
		return nil, runs, violf("reply-shape", "expected one response object, got %s", trunc(buf.String(), 200))
	}
	return sh.objs[0], runs, nil
}

func goodParams(typ, method string) string {
	parts := []string{}
	for _, k := range c12Params[typ+"."+method] {
		parts = append(parts, c12Good[k])
	}
	return "[" + strings.Join(parts, ",") + "]"
}

// c12DispatchCheck sends one request for the method string and judges it by the dispatch model: the direct formatted name,
// else the alias target, else method-not-found with nothing run.
func c12DispatchCheck(srv *c12Server, cfg c12Config, tab map[string][]c12Target, method string) *Violation {
	targets := c12Lookup(cfg, tab, method)
	if len(targets) == 0 {
		r, runs, v := srv.call(method, "[]")
		if v != nil {
			return v
		}
		if len(runs) != 0 {
			return violf("notfound-ran", "method string %q resolves to nothing but %v ran", method, runs)
		}
		if !r.hasErr || r.errCode != -32601 {
			return violf("notfound-code", "method string %q resolves to nothing: expected -32601, got hasErr=%v code=%d", method, r.hasErr, r.errCode)
		}
		return nil
	}
	// all candidate targets of an ambiguous name share a spelling; params are chosen per candidate
	var last *Violation
	for _, tg := range targets {
		r, runs, v := srv.call(method, goodParams(tg.typ, tg.method))
		if v != nil {
			return v
		}
		if len(runs) == 1 {
			ok := false
			for _, t2 := range targets {
				if runs[0] == t2.reg+"/"+t2.method {
					ok = true
				}
			}
			if !ok {
				_, direct := tab[method]
				key := "wrong-handler"
				if !direct {
					key = "alias-wrong-handler"
				} else if _, isAlias := cfg.Aliases[method]; isAlias {
					key = "alias-beats-direct"
				}
				return violf(key, "method string %q must run one of %v but %v ran", method, targets, runs)
			}
			if r.hasErr {
				return violf("ran-but-error", "handler ran but the call returned error %d %q", r.errCode, r.errMsg)
			}
			return nil
		}
		if len(runs) > 1 {
			return violf("ran-twice", "method string %q ran %v", method, runs)
		}
		last = violf("resolvable-not-run", "method string %q must run one of %v but nothing ran (error %d %q)", method, targets, r.errCode, r.errMsg)
	}
	return last
}

// ---- histories: setup steps and requests interleaved on one live server ---------------------------------------------

type c12Op struct {
	Op     string `json:"op"` // register | alias | request
	NS     string `json:"ns,omitempty"`
	Type   string `json:"type,omitempty"`
	Alias  string `json:"alias,omitempty"`
	To     string `json:"to,omitempty"`
	Method string `json:"method,omitempty"`
}

type c12History struct {
	Formatter string  `json:"formatter"`
	Ops       []c12Op `json:"history_ops"`
}

// runC12History applies the steps one by one to a single server; every request is judged against the registrations and
// aliases made so far (a later alias may add a name, re-point one or point it at nothing; a later registration may claim
// a name an alias used to cover).
func runC12History(h c12History) *Violation {
	cfg := c12Config{Formatter: h.Formatter, Aliases: map[string]string{}}
	srv := &c12Server{log: &c12Log{}}
	srv.rpc = jsonrpc.NewServer(jsonrpc.WithServerMethodNameFormatter(c12Formatter(h.Formatter)))
	for i, op := range h.Ops {
		switch op.Op {
		case "register":
			reg := op.NS + ":" + op.Type
			switch op.Type {
			case "X":
				srv.rpc.Register(op.NS, &c12X{reg: reg, log: srv.log})
			case "Z":
				srv.rpc.Register(op.NS, &c12Z{reg: reg, log: srv.log})
			default:
				srv.rpc.Register(op.NS, &c12Y{reg: reg, log: srv.log})
			}
			cfg.Regs = append(cfg.Regs, c12Reg{NS: op.NS, Type: op.Type})
		case "alias":
			srv.rpc.AliasMethod(op.Alias, op.To)
			cfg.Aliases[op.Alias] = op.To
		case "request":
			if v := c12DispatchCheck(srv, cfg, c12Table(cfg), op.Method); v != nil {
				v.Msg = fmt.Sprintf("step %d of the history: %s", i+1, v.Msg)
				return v
			}
		}
	}
	return nil
}

func runC12(c c12Case) *Violation {
	srv := c12Build(c.Config)
	tab := c12Table(c.Config)
	switch c.Kind {
	case "dispatch":
		return c12DispatchCheck(srv, c.Config, tab, c.Method)
	case "arity", "type":
		targets := c12Lookup(c.Config, tab, c.Method)
		if len(targets) != 1 {
			return nil
		}
		tg := targets[0]
		kinds := c12Params[tg.typ+"."+tg.method]
		var ps []json.RawMessage
		_ = json.Unmarshal([]byte(c.Params), &ps)
		okArity := len(ps) == len(kinds)
		okTypes := okArity
		if okArity {
			for i, k := range kinds {
				if !c12Decodes(k, string(ps[i])) {
					okTypes = false
				}
			}
		}
		r, runs, v := srv.call(c.Method, c.Params)
		if v != nil {
			return v
		}
		if okArity && okTypes {
			if len(runs) != 1 || r.hasErr {
				return violf("valid-call-rejected", "method %q params %s decode fine but runs=%v err=%d %q", c.Method, c.Params, runs, r.errCode, r.errMsg)
			}
			return nil
		}
		if len(runs) != 0 {
			key := "bad-types-ran"
			if !okArity {
				key = "bad-arity-ran"
			}
			return violf(key, "method %q (%v) with params %s ran the handler %v", c.Method, kinds, c.Params, runs)
		}
		if !r.hasErr {
			return violf("bad-params-no-error", "method %q with params %s: no error", c.Method, c.Params)
		}
		if !okArity && r.errCode != -32602 {
			return violf("bad-arity-code", "method %q with %d params (needs %d): code %d, expected -32602", c.Method, len(ps), len(kinds), r.errCode)
		}
		return nil
	case "client", "tag":
		return runC12Client(c, srv, tab)
	}
	return nil
}

var (
	tCtx   = reflect.TypeOf((*context.Context)(nil)).Elem()
	tErr   = reflect.TypeOf((*error)(nil)).Elem()
	tInt   = reflect.TypeOf(int(0))
	tStr   = reflect.TypeOf("")
	tBool  = reflect.TypeOf(false)
	tMap   = reflect.TypeOf(map[string]int{})
	tPtrOb = reflect.TypeOf(&BasicObj{})
)

func c12FuncType(typ, method string) reflect.Type {
	switch typ + "." + method {
	case "X.Get", "Y.Get":
		return reflect.FuncOf([]reflect.Type{tInt}, []reflect.Type{tInt, tErr}, false)
	case "X.Put":
		return reflect.FuncOf([]reflect.Type{tStr}, []reflect.Type{tErr}, false)
	case "X.Shared", "Y.Shared":
		return reflect.FuncOf(nil, []reflect.Type{tStr, tErr}, false)
	case "Y.Only":
		return reflect.FuncOf([]reflect.Type{tInt, tStr, tBool}, []reflect.Type{tStr, tErr}, false)
	case "Y.Ctx":
		return reflect.FuncOf([]reflect.Type{tCtx, tMap, tPtrOb}, []reflect.Type{tInt, tErr}, false)
	}
	return nil
}

func c12Args(typ, method string) []reflect.Value {
	switch typ + "." + method {
	case "X.Get", "Y.Get":
		return []reflect.Value{reflect.ValueOf(7)}
	case "X.Put":
		return []reflect.Value{reflect.ValueOf("s")}
	case "Y.Only":
		return []reflect.Value{reflect.ValueOf(1), reflect.ValueOf("b"), reflect.ValueOf(true)}
	case "Y.Ctx":
		return []reflect.Value{reflect.ValueOf(context.Background()), reflect.ValueOf(map[string]int{"k": 1}), reflect.ValueOf(&BasicObj{A: 1})}
	}
	return nil
}

// runC12Client: a client built with the same formatter (kind "client"), or with an
// arbitrary field name tagged with the server-side name (kind "tag"), reaches
// exactly the handler the model names.
func runC12Client(c c12Case, srv *c12Server, tab map[string][]c12Target) *Violation {
	f := c12Formatter(c.Config.Formatter)
	// which registration does (NS, Field) denote? The type registered under NS that has the field.
	var typ string
	for _, r := range c.Config.Regs {
		if r.NS == c.NS {
			for _, m := range c12Methods[r.Type] {
				if m == c.Field {
					typ = r.Type
				}
			}
		}
	}
	sigType := typ
	if sigType == "" {
		sigType = "X"
		if c.Field == "Only" || c.Field == "Ctx" {
			sigType = "Y"
		}
	}
	ft := c12FuncType(sigType, c.Field)
	if ft == nil {
		return nil
	}
	serverName := f(c.NS, c.Field)
	field := reflect.StructField{Name: c.Field, Type: ft}
	opts := []jsonrpc.Option{jsonrpc.WithMethodNameFormatter(f)}
	clientNS := c.NS
	if c.Kind == "tag" {
		field = reflect.StructField{Name: "Renamed" + c.Field, Type: ft, Tag: reflect.StructTag(fmt.Sprintf(`rpc_method:%q`, serverName))}
		opts = nil // default formatter on the client, name comes from the tag
		clientNS = "IgnoredNS"
	}
	st := reflect.StructOf([]reflect.StructField{field})
	ptr := reflect.New(st)
	closer, err := jsonrpc.NewCustomClient(clientNS, []interface{}{ptr.Interface()}, func(ctx context.Context, body []byte) (io.ReadCloser, error) {
		var buf bytes.Buffer
		srv.rpc.HandleRequest(ctx, bytes.NewReader(body), &buf)
		return io.NopCloser(&buf), nil
	}, opts...)
	if err != nil {
		return violf("client-build", "NewCustomClient: %v", err)
	}
	defer closer()
	srv.log.take()
	out := ptr.Elem().Field(0).Call(c12Args(sigType, c.Field))
	runs := srv.log.take()
	callErr, _ := out[len(out)-1].Interface().(error)
	targets := c12Lookup(c.Config, tab, serverName)
	if len(targets) == 0 {
		if len(runs) != 0 || callErr == nil {
			return violf("client-notfound-ran", "client call %s/%s -> %q resolves to nothing but runs=%v err=%v", c.NS, c.Field, serverName, runs, callErr)
		}
		return nil
	}
	if len(runs) != 1 {
		if len(targets) > 1 {
			return nil // ambiguous spelling claimed by types with different signatures: statement silent
		}
		if len(runs) == 0 && callErr != nil && fmt.Sprint(c12Params[targets[0].typ+"."+targets[0].method]) != fmt.Sprint(c12Params[sigType+"."+c.Field]) {
			return nil // an alias led to a handler with another signature: rejected for arity/types, nothing ran
		}
		return violf("client-disagrees", "client call %s/%s -> %q must run %v but runs=%v err=%v", c.NS, c.Field, serverName, targets, runs, callErr)
	}
	for _, tg := range targets {
		if runs[0] == tg.reg+"/"+tg.method {
			return nil
		}
	}
	return violf("client-wrong-handler", "client call %s/%s -> %q must run one of %v but %v ran", c.NS, c.Field, serverName, targets, runs)
}

// ---- universe -------------------------------------------------------------

// ---- setup on several goroutines at once: servers and clients that share a formatter instance --------------

type c12ConcSetup struct {
	Formatter string `json:"formatter"` // one of the built-in formatter instances (shared by all builders)
	Builders  int    `json:"builders"`
	Rounds    int    `json:"rounds"`
}

func c12RefName(formatter, ns, m string) string {
	lower := func(x string) string {
		if x == "" {
			return x
		}
		return strings.ToLower(x[:1]) + x[1:]
	}
	switch formatter {
	case "ns+lower":
		return ns + "." + lower(m)
	case "nons":
		return m
	case "nons+lower":
		return lower(m)
	}
	return ns + "." + m
}

type c12XClient struct {
	Get    func(int) (int, error)
	Put    func(string) error
	Shared func() string
}

// runC12ConcSetup: every builder registers a handler under its own namespace on its own server and builds its own
// client, all through the same formatter instance and all at the same time; each must end up with exactly the names
// the formatter defines for its namespace, on both sides.
func runC12ConcSetup(c c12ConcSetup) *Violation {
	f := c12Formatter(c.Formatter)
	var mu sync.Mutex
	var first *Violation
	fail := func(v *Violation) {
		mu.Lock()
		if first == nil {
			first = v
		}
		mu.Unlock()
	}
	var wg sync.WaitGroup
	start := make(chan struct{})
	for b := 0; b < c.Builders; b++ {
		wg.Add(1)
		go func(b int) {
			defer wg.Done()
			defer func() {
				if r := recover(); r != nil {
					fail(violf("setup-panic", "builder %d panicked: %v", b, r))
				}
			}()
			ns := fmt.Sprintf("Namespace%c%d", 'A'+b, b*7+3) + strings.Repeat("x", b)
			<-start
			for r := 0; r < c.Rounds; r++ {
				lg := &c12Log{}
				rpc := jsonrpc.NewServer(jsonrpc.WithServerMethodNameFormatter(f))
				rpc.Register(ns, &c12X{reg: ns, log: lg})
				srv := &c12Server{rpc: rpc, log: lg}
				for _, m := range c12Methods["X"] {
					name := c12RefName(c.Formatter, ns, m)
					resp, runs, v := srv.call(name, goodParams("X", m))
					if v != nil {
						fail(v)
						return
					}
					if resp.hasErr || len(runs) != 1 || runs[0] != ns+"/"+m {
						fail(violf("concurrent-setup-server-name", "builder %d (namespace %q, formatter %s, %d builders at once): method %q is not served under its formatted name: error=%v code=%d ran=%v", b, ns, c.Formatter, c.Builders, name, resp.hasErr, resp.errCode, runs))
						return
					}
				}
				var cl c12XClient
				closer, err := jsonrpc.NewCustomClient(ns, []interface{}{&cl}, func(ctx context.Context, body []byte) (io.ReadCloser, error) {
					var buf bytes.Buffer
					rpc.HandleRequest(ctx, bytes.NewReader(body), &buf)
					return io.NopCloser(&buf), nil
				}, jsonrpc.WithMethodNameFormatter(f))
				if err != nil {
					fail(violf("concurrent-setup-client", "builder %d: client construction failed: %v", b, err))
					return
				}
				lg.take()
				v, gerr := cl.Get(5)
				perr := cl.Put("s")
				sh := cl.Shared()
				runs := lg.take()
				closer()
				if gerr != nil || perr != nil || v != 105 || sh != "X" || len(runs) != 3 {
					fail(violf("concurrent-setup-client-name", "builder %d (namespace %q, formatter %s, %d builders at once): client and server built with the same formatter disagree: Get=(%d,%v) Put=%v Shared=%q ran=%v", b, ns, c.Formatter, c.Builders, v, gerr, perr, sh, runs))
					return
				}
			}
		}(b)
	}
	close(start)
	wg.Wait()
	return first
}

var c12Namespaces = []string{"A", "B", ""}

func c12AllRegSets() [][]c12Reg {
	// per namespace: none, X, Y, X then Y, Y then X
	opts := [][]string{{}, {"X"}, {"Y"}, {"X", "Y"}, {"Y", "X"}}
	var out [][]c12Reg
	for a := range opts {
		for b := range opts {
			for e := range opts {
				var regs []c12Reg
				for i, o := range []int{a, b, e} {
					for _, t := range opts[o] {
						regs = append(regs, c12Reg{NS: c12Namespaces[i], Type: t})
					}
				}
				if len(regs) > 0 {
					out = append(out, regs)
				}
			}
		}
	}
	return out
}

func c12AllNames() []string {
	set := map[string]bool{}
	for _, f := range c12Formatters {
		for _, ns := range c12Namespaces {
			for _, t := range []string{"X", "Y"} {
				for _, m := range c12Methods[t] {
					set[f.F(ns, m)] = true
				}
			}
		}
	}
	for _, g := range []string{"", "A.", ".", "a.get", "A.GET", "A.Get ", " A.Get", "A..Get", "C.Get", "A.Get.Get", "al1", "al2", "chain1", "chain2", "xrpc.cancel"} {
		set[g] = true
	}
	out := make([]string, 0, len(set))
	for k := range set {
		out = append(out, k)
	}
	sort.Strings(out)
	return out
}

func c12AliasTables(cfg c12Config) []map[string]string {
	f := c12Formatter(cfg.Formatter)
	tables := []map[string]string{{}}
	if len(cfg.Regs) == 0 {
		return tables
	}
	r0 := cfg.Regs[0]
	rl := cfg.Regs[len(cfg.Regs)-1]
	existing := f(r0.NS, c12Methods[r0.Type][0])
	other := f(rl.NS, c12Methods[rl.Type][len(c12Methods[rl.Type])-1])
	tables = append(tables,
		map[string]string{"al1": existing, "al2": "does.not.exist"},
		// alias spelled like a direct name but pointing elsewhere: the direct name must win
		map[string]string{existing: other, "al1": other},
		// chains must not be followed
		map[string]string{"chain1": "chain2", "chain2": existing, "al1": "al1"},
		// aliases spelled like names another formatter would produce
		map[string]string{"A.Get": other, "get": existing, "A_Get": "A.Get"},
	)
	return tables
}

const c12Rule = "exhaustive over {A,B,''} namespaces x {none,X,Y,X+Y,Y+X} registrations per namespace x 6 formatters x 5 alias tables (declared after or before the registrations) x every candidate method string of the universe; arities 0..k+1 and one wrongly typed JSON value per parameter position for every method, including a fixture with narrow numeric parameter types (int8..uint64, float32, fixed arrays) and literals on either side of each type's range; histories of register / alias / request steps interleaved on one live server, every request judged against the setup made so far; client/server agreement (same formatter, rpc_method tag); 8 goroutines building servers and clients at the same time through one shared built-in formatter instance, each under its own namespace. Non-trivial = >=2 registrations, or an alias involved, or a non-default formatter; distinct by descriptor hash"

func c12NT(c c12Case) (bool, []string) {
	cl := []string{"kind_" + c.Kind, "fmt_" + c.Config.Formatter}
	nt := len(c.Config.Regs) >= 2 || len(c.Config.Aliases) > 0 || c.Config.Formatter != "default"
	if _, ok := c.Config.Aliases[c.Method]; ok {
		cl = append(cl, "method_is_alias")
		if c.Config.AliasFirst {
			cl = append(cl, "alias_declared_before_registration")
		}
		if _, direct := c12Table(c.Config)[c.Method]; direct {
			cl = append(cl, "alias_shadows_direct")
		}
	}
	if c.Kind == "dispatch" {
		tg := c12Lookup(c.Config, c12Table(c.Config), c.Method)
		switch {
		case len(tg) == 0:
			cl = append(cl, "resolves_none")
		case len(tg) == 1:
			cl = append(cl, "resolves_one")
		default:
			cl = append(cl, "resolves_ambiguous")
		}
	}
	return nt, cl
}

func TestC12(t *testing.T) {
	rec := NewRec("C12", c12Rule)
	defer rec.Finish(t)
	rec.RequireClass("history_setup_after_request", "alias_declared_before_registration", "concurrent_setup", "method_is_alias", "alias_shadows_direct", "resolves_none", "resolves_one", "kind_arity", "kind_type", "kind_client", "kind_tag")
	names := c12AllNames()
	regsets := c12AllRegSets()
	sh, nsh := shard()

	t.Run("exhaustive", func(t *testing.T) {
		n := 0
		for ri, regs := range regsets {
			if ri%nsh != sh {
				continue
			}
			for _, f := range c12Formatters {
				base := c12Config{Regs: regs, Formatter: f.Name}
				for ai, al := range c12AliasTables(base) {
					cfg := c12Config{Regs: regs, Formatter: f.Name, Aliases: al, AliasFirst: len(al) > 0 && (ri+ai)%2 == 1}
					for _, m := range names {
						c := c12Case{Config: cfg, Kind: "dispatch", Method: m}
						nt, cl := c12NT(c)
						rec.Run(t, c, nt, cl, func() *Violation { return runC12(c) })
						n++
					}
					for m := range al {
						c := c12Case{Config: cfg, Kind: "dispatch", Method: m}
						nt, cl := c12NT(c)
						rec.Run(t, c, nt, cl, func() *Violation { return runC12(c) })
						n++
					}
				}
				// client agreement for every namespace x field
				for _, ns := range c12Namespaces {
					for _, fld := range []string{"Get", "Put", "Shared", "Only", "Ctx"} {
						for _, kind := range []string{"client", "tag"} {
							c := c12Case{Config: base, Kind: kind, NS: ns, Field: fld}
							nt, cl := c12NT(c)
							rec.Run(t, c, nt, cl, func() *Violation { return runC12(c) })
							n++
						}
					}
				}
			}
		}
		rec.SetExtra("exhaustive_dispatch_cases", n)
		rec.Exhaustive(true)
	})

	t.Run("arity-types", func(t *testing.T) {
		bad := []string{"1", "-7", "2.5", `"s"`, `""`, "true", "null", "[]", "[1]", "{}", `{"a":"x"}`, `{"k":"v"}`, "1e400", "9223372036854775808",
			// the edges of the narrow integer types, either side
			"127", "128", "-128", "-129", "255", "256", "300", "-1", "32767", "32768", "-32769", "65535", "65536", "65558", "2147483647", "2147483648", "-2147483649",
			"4294967295", "4294967296", "1099511627776", "18446744073709551615", "18446744073709551616", "1e2", "3.5e38", "[1,2]", "[1,128]", "[1,2,3]", `"AQI"`, "[300]"}
		for _, f := range c12Formatters {
			for _, typ := range []string{"X", "Y", "Z"} {
				cfg := c12Config{Regs: []c12Reg{{NS: "A", Type: typ}}, Formatter: f.Name}
				for _, m := range c12Methods[typ] {
					kinds := c12Params[typ+"."+m]
					name := f.F("A", m)
					for ar := 0; ar <= len(kinds)+1; ar++ {
						parts := []string{}
						for i := 0; i < ar; i++ {
							if i < len(kinds) {
								parts = append(parts, c12Good[kinds[i]])
							} else {
								parts = append(parts, "0")
							}
						}
						c := c12Case{Config: cfg, Kind: "arity", Method: name, Params: "[" + strings.Join(parts, ",") + "]"}
						nt, cl := c12NT(c)
						rec.Run(t, c, nt || ar != len(kinds), cl, func() *Violation { return runC12(c) })
					}
					for pos := range kinds {
						for _, b := range bad {
							parts := []string{}
							for i, k := range kinds {
								if i == pos {
									parts = append(parts, b)
								} else {
									parts = append(parts, c12Good[k])
								}
							}
							c := c12Case{Config: cfg, Kind: "type", Method: name, Params: "[" + strings.Join(parts, ",") + "]"}
							_, cl := c12NT(c)
							rec.Run(t, c, true, cl, func() *Violation { return runC12(c) })
						}
					}
				}
			}
		}
	})

	t.Run("histories", func(t *testing.T) {
		for _, f := range c12Formatters {
			n := func(ns, m string) string { return f.F(ns, m) }
			hs := []c12History{
				{Formatter: f.Name, Ops: []c12Op{{Op: "register", NS: "A", Type: "X"}, {Op: "request", Method: n("A", "Get")}, {Op: "alias", Alias: "Legacy.Get", To: n("A", "Get")}, {Op: "request", Method: "Legacy.Get"},
					{Op: "alias", Alias: "Legacy.Get", To: n("A", "Put")}, {Op: "request", Method: "Legacy.Get"}, {Op: "alias", Alias: "Legacy.Get", To: "No.Such"}, {Op: "request", Method: "Legacy.Get"},
					{Op: "register", NS: "B", Type: "Y"}, {Op: "alias", Alias: "Legacy.Get", To: n("B", "Only")}, {Op: "request", Method: "Legacy.Get"}, {Op: "request", Method: n("B", "Only")}}},
				{Formatter: f.Name, Ops: []c12Op{{Op: "alias", Alias: "old", To: n("B", "Ctx")}, {Op: "request", Method: "old"}, {Op: "register", NS: "B", Type: "Y"}, {Op: "request", Method: "old"},
					{Op: "alias", Alias: n("B", "Get"), To: n("B", "Only")}, {Op: "request", Method: n("B", "Get")}, {Op: "register", NS: "B", Type: "X"}, {Op: "request", Method: n("B", "Put")}, {Op: "request", Method: "old"}}},
				{Formatter: f.Name, Ops: []c12Op{{Op: "register", NS: "A", Type: "Y"}, {Op: "alias", Alias: "x", To: n("A", "Get")}, {Op: "request", Method: "x"}, {Op: "alias", Alias: "y", To: n("A", "Shared")}, {Op: "request", Method: "y"},
					{Op: "request", Method: "x"}, {Op: "alias", Alias: "x", To: n("A", "Shared")}, {Op: "request", Method: "x"}}},
			}
			for _, h := range hs {
				rec.Run(t, h, true, []string{"history", "history_setup_after_request", "fmt_" + f.Name}, func() *Violation { return runC12History(h) })
			}
		}
	})

	rec.Rapid(t, "rapid-histories", func(rt *rapid.T) {
		h := c12History{Formatter: rapid.SampledFrom(c12Formatters).Draw(rt, "fmt").Name}
		f := c12Formatter(h.Formatter)
		nss := []string{"A", "B", ""}
		pool := []string{"Legacy.Get", "old", "x"}
		for _, ns := range nss {
			for _, typ := range []string{"X", "Y"} {
				for _, m := range c12Methods[typ] {
					pool = append(pool, f(ns, m))
				}
			}
		}
		n := rapid.IntRange(3, 14).Draw(rt, "nops")
		seenReq, setupAfterReq, late := false, false, false
		for i := 0; i < n; i++ {
			switch rapid.IntRange(0, 5).Draw(rt, "op") {
			case 0:
				h.Ops = append(h.Ops, c12Op{Op: "register", NS: rapid.SampledFrom(nss).Draw(rt, "ns"), Type: rapid.SampledFrom([]string{"X", "Y"}).Draw(rt, "type")})
				setupAfterReq = setupAfterReq || seenReq
			case 1, 2:
				h.Ops = append(h.Ops, c12Op{Op: "alias", Alias: rapid.SampledFrom(pool).Draw(rt, "alias"), To: rapid.SampledFrom(pool).Draw(rt, "to")})
				setupAfterReq = setupAfterReq || seenReq
			default:
				h.Ops = append(h.Ops, c12Op{Op: "request", Method: rapid.SampledFrom(pool).Draw(rt, "method")})
				seenReq = true
				late = late || setupAfterReq
			}
		}
		cl := []string{"history", "fmt_" + h.Formatter}
		if late {
			cl = append(cl, "history_setup_after_request")
		}
		rec.Run(rt, h, late, cl, func() *Violation { return runC12History(h) })
	})

	t.Run("concurrent-setup", func(t *testing.T) {
		for _, fn := range []string{"default", "ns+lower", "nons", "nons+lower"} {
			c := c12ConcSetup{Formatter: fn, Builders: 8, Rounds: scale(150, 1500)}
			rec.Run(t, c, true, []string{"concurrent_setup"}, func() *Violation { return runC12ConcSetup(c) })
		}
	})

	rec.Rapid(t, "rapid", func(rt *rapid.T) {
		nreg := rapid.IntRange(1, 5).Draw(rt, "nreg")
		var regs []c12Reg
		for i := 0; i < nreg; i++ {
			regs = append(regs, c12Reg{NS: rapid.SampledFrom([]string{"A", "B", "", "a", "A.B"}).Draw(rt, "ns"), Type: rapid.SampledFrom([]string{"X", "Y"}).Draw(rt, "type")})
		}
		cfg := c12Config{Regs: regs, Formatter: rapid.SampledFrom(c12Formatters).Draw(rt, "fmt").Name, Aliases: map[string]string{}, AliasFirst: rapid.Bool().Draw(rt, "aliasfirst")}
		f := c12Formatter(cfg.Formatter)
		var pool []string
		for _, r := range regs {
			for _, m := range c12Methods[r.Type] {
				pool = append(pool, f(r.NS, m))
			}
		}
		pool = append(pool, names...)
		nal := rapid.IntRange(0, 4).Draw(rt, "nalias")
		for i := 0; i < nal; i++ {
			cfg.Aliases[rapid.SampledFrom(pool).Draw(rt, "alias")] = rapid.SampledFrom(pool).Draw(rt, "target")
		}
		var c c12Case
		switch rapid.IntRange(0, 4).Draw(rt, "kind") {
		case 0, 1, 2:
			m := rapid.SampledFrom(pool).Draw(rt, "method")
			if rapid.IntRange(0, 5).Draw(rt, "mut") == 0 {
				m = rapid.SampledFrom([]func(string) string{strings.ToLower, strings.ToUpper, func(s string) string { return s + " " }, func(s string) string { return " " + s }, strings.Title}).Draw(rt, "mutfn")(m)
			}
			c = c12Case{Config: cfg, Kind: "dispatch", Method: m}
		case 3:
			c = c12Case{Config: cfg, Kind: "client", NS: regs[0].NS, Field: rapid.SampledFrom([]string{"Get", "Put", "Shared", "Only", "Ctx"}).Draw(rt, "field")}
		default:
			c = c12Case{Config: cfg, Kind: "tag", NS: regs[0].NS, Field: rapid.SampledFrom([]string{"Get", "Put", "Shared", "Only", "Ctx"}).Draw(rt, "field")}
		}
		nt, cl := c12NT(c)
		rec.Run(rt, c, nt, cl, func() *Violation { return runC12(c) })
	})
}

func TestC12Replay(t *testing.T) {
	Replay(t, "C12", 1, func(raw json.RawMessage) *Violation {
		var probe map[string]json.RawMessage
		_ = json.Unmarshal(raw, &probe)
		if _, ok := probe["history_ops"]; ok {
			var h c12History
			if err := json.Unmarshal(raw, &h); err != nil {
				return nil
			}
			return runC12History(h)
		}
		if _, ok := probe["builders"]; ok {
			var c c12ConcSetup
			if err := json.Unmarshal(raw, &c); err != nil {
				return nil
			}
			return runC12ConcSetup(c)
		}
		var c c12Case
		if err := json.Unmarshal(raw, &c); err != nil {
			return nil
		}
		return runC12(c)
	})
}
