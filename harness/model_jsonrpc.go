package harness

// Reference model of JSON-RPC 2.0 replies for the BasicAPI fixture, written from
// the statement of C09 (not from the implementation). Where the statement is
// silent the model is lenient and only requires well-formedness.

import (
	"bytes"
	"encoding/json"
	"fmt"
	"io"
	"math/big"
	"reflect"
	"strconv"
	"strings"
)

type respObj struct {
	raw      map[string]json.RawMessage
	idNull   bool
	idOther  bool // id of a JSON type other than string/number/null (only possible when echoing an undecodable request)
	idStr    *string
	idNum    *float64
	hasRes   bool
	hasErr   bool
	errCode  int64
	errMsg   string
	resultJS json.RawMessage
}

func parseRespObj(raw json.RawMessage) (*respObj, string) {
	var m map[string]json.RawMessage
	if err := json.Unmarshal(raw, &m); err != nil || m == nil {
		return nil, fmt.Sprintf("response is not a JSON object: %s", trunc(string(raw), 200))
	}
	r := &respObj{raw: m}
	var ver string
	if err := json.Unmarshal(m["jsonrpc"], &ver); err != nil || ver != "2.0" {
		return nil, fmt.Sprintf("response lacks jsonrpc \"2.0\": %s", trunc(string(raw), 200))
	}
	idr, ok := m["id"]
	if !ok {
		return nil, fmt.Sprintf("response lacks the id member: %s", trunc(string(raw), 200))
	}
	idt := strings.TrimSpace(string(idr))
	switch {
	case idt == "null":
		r.idNull = true
	case strings.HasPrefix(idt, `"`):
		var s string
		if err := json.Unmarshal(idr, &s); err != nil {
			return nil, "response id is not decodable"
		}
		r.idStr = &s
	default:
		f, err := strconv.ParseFloat(idt, 64)
		if err != nil {
			r.idOther = true
		} else {
			r.idNum = &f
		}
	}
	_, r.hasRes = m["result"]
	_, r.hasErr = m["error"]
	if r.hasRes == r.hasErr {
		return nil, fmt.Sprintf("response must carry exactly one of result/error (result=%v error=%v): %s", r.hasRes, r.hasErr, trunc(string(raw), 200))
	}
	if r.hasErr {
		var e struct {
			Code    *json.Number `json:"code"`
			Message *string      `json:"message"`
		}
		d := json.NewDecoder(bytes.NewReader(m["error"]))
		d.UseNumber()
		if err := d.Decode(&e); err != nil || e.Code == nil || e.Message == nil {
			return nil, fmt.Sprintf("error member is not {code:int, message:string}: %s", trunc(string(m["error"]), 200))
		}
		c, err := e.Code.Int64()
		if err != nil {
			return nil, fmt.Sprintf("error code is not an integer: %s", e.Code.String())
		}
		r.errCode = c
		r.errMsg = *e.Message
	} else {
		r.resultJS = m["result"]
	}
	return r, ""
}

func trunc(s string, n int) string {
	if len(s) > n {
		return s[:n] + "..."
	}
	return s
}

// reply well-formedness: "" | one object | one array of objects
type replyShape struct {
	empty bool
	array bool
	objs  []*respObj
}

func parseReply(reply []byte) (*replyShape, *Violation) {
	t := bytes.TrimSpace(reply)
	if len(t) == 0 {
		return &replyShape{empty: true}, nil
	}
	dec := json.NewDecoder(bytes.NewReader(t))
	var first json.RawMessage
	if err := dec.Decode(&first); err != nil {
		return nil, violf("reply-not-json", "reply is not well-formed JSON (%v): %s", err, trunc(string(t), 300))
	}
	var rest json.RawMessage
	if err := dec.Decode(&rest); err != io.EOF {
		return nil, violf("reply-multiple-values", "reply holds more than one JSON value: %s", trunc(string(t), 300))
	}
	sh := &replyShape{}
	switch first[0] {
	case '{':
		o, why := parseRespObj(first)
		if o == nil {
			return nil, violf("response-object-malformed", "%s", why)
		}
		sh.objs = []*respObj{o}
	case '[':
		sh.array = true
		var els []json.RawMessage
		if err := json.Unmarshal(first, &els); err != nil {
			return nil, violf("reply-not-json", "reply array undecodable: %v", err)
		}
		for _, e := range els {
			o, why := parseRespObj(e)
			if o == nil {
				return nil, violf("response-object-malformed", "%s", why)
			}
			sh.objs = append(sh.objs, o)
		}
	default:
		return nil, violf("reply-not-response", "reply is neither a response object nor an array: %s", trunc(string(t), 200))
	}
	return sh, nil
}

type idKind int

const (
	idAbsent idKind = iota
	idNullK
	idValid
	idInvalid
)

type reqElem struct {
	idKind  idKind
	idStr   *string
	idNum   *float64
	method  string
	params  json.RawMessage // nil when absent
	lenient bool            // shape outside the precise model
}

type mirrorReq struct {
	Jsonrpc json.RawMessage `json:"jsonrpc"`
	ID      json.RawMessage `json:"id"`
	Method  json.RawMessage `json:"method"`
	Params  json.RawMessage `json:"params"`
	Meta    json.RawMessage `json:"meta"`
}

func exactFloat(lit string) (float64, bool) {
	f, err := strconv.ParseFloat(lit, 64)
	if err != nil {
		return 0, false
	}
	bf, _, err := big.ParseFloat(lit, 10, 2000, big.ToNearestEven)
	if err != nil {
		return 0, false
	}
	return f, bf.Cmp(new(big.Float).SetPrec(2000).SetFloat64(f)) == 0
}

func parseReqElem(raw json.RawMessage) reqElem {
	var e reqElem
	t := bytes.TrimSpace(raw)
	if len(t) == 0 || t[0] != '{' {
		e.lenient = true
		return e
	}
	var m mirrorReq
	if err := json.Unmarshal(t, &m); err != nil {
		e.lenient = true
		return e
	}
	if hasDuplicateKeys(t) {
		// encoding/json reports a type error of an earlier duplicate even when the last one is fine
		e.lenient = true
	}
	// jsonrpc and meta must have the types the wire format declares, otherwise the
	// whole element is "not a request" and the statement does not say what happens.
	if len(m.Jsonrpc) > 0 {
		var s string
		if json.Unmarshal(m.Jsonrpc, &s) != nil && string(m.Jsonrpc) != "null" {
			e.lenient = true
		}
	}
	if len(m.Meta) > 0 {
		var mm map[string]string
		if json.Unmarshal(m.Meta, &mm) != nil {
			e.lenient = true
		}
		if mm != nil {
			// a SpanContext starts tracing; irrelevant for replies but keep it out of the precise model
			e.lenient = true
		}
	}
	if len(m.Method) > 0 && string(m.Method) != "null" {
		if json.Unmarshal(m.Method, &e.method) != nil {
			e.lenient = true
		}
	}
	idt := string(bytes.TrimSpace(m.ID))
	switch {
	case len(idt) == 0:
		e.idKind = idAbsent
	case idt == "null":
		e.idKind = idNullK
	case idt[0] == '"':
		var s string
		if json.Unmarshal(m.ID, &s) != nil {
			e.lenient = true
		}
		e.idKind, e.idStr = idValid, &s
	case idt[0] == '-' || (idt[0] >= '0' && idt[0] <= '9'):
		f, exact := exactFloat(idt)
		if !exact {
			e.lenient = true
		}
		e.idKind, e.idNum = idValid, &f
	default:
		e.idKind = idInvalid
	}
	if len(m.Params) > 0 {
		e.params = m.Params
	}
	return e
}

// c09Aliases is the alias table installed on the fixture server.
var c09Aliases = map[string]string{"alias.add": "T.Add", "alias.missing": "T.Missing", "T.Echo": "T.Add", /* shadowed by the direct name */
	"größe.加": "T.Add", "tab\tname": "T.Add", strings.Repeat("long", 80): "T.Add"}

func resolveBasic(method string) (string, bool) {
	if strings.HasPrefix(method, "T.") {
		if _, ok := basicSigs[method[2:]]; ok {
			return method[2:], true
		}
	}
	if to, ok := c09Aliases[method]; ok && strings.HasPrefix(to, "T.") {
		if _, ok := basicSigs[to[2:]]; ok {
			return to[2:], true
		}
	}
	return "", false
}

type elemExpect struct {
	run      string // method expected to run exactly once ("" = none)
	codes    []int64
	anyError bool
	result   json.RawMessage
	errMsg   string
	isErr    bool
}

func expectElem(e reqElem) elemExpect {
	var x elemExpect
	if e.idKind == idInvalid {
		x.anyError = true
		return x
	}
	name, ok := resolveBasic(e.method)
	if !ok {
		x.codes = []int64{-32601}
		return x
	}
	sig := basicSigs[name]
	if sig.raw {
		x.run = name
		x.result, x.errMsg, x.isErr = basicExpected(name, nil, e.params)
		return x
	}
	var ps []json.RawMessage
	pt := bytes.TrimSpace(e.params)
	if len(pt) > 0 && string(pt) != "null" {
		if pt[0] != '[' || json.Unmarshal(pt, &ps) != nil {
			x.anyError = true // params that do not decode into a positional list
			return x
		}
	}
	if len(ps) != len(sig.params) {
		x.codes = []int64{-32602}
		return x
	}
	args := make([]interface{}, len(ps))
	for i, p := range ps {
		v, ok := basicDecodes(sig.params[i], p)
		if !ok {
			x.anyError = true
			return x
		}
		args[i] = v
	}
	x.run = name
	x.result, x.errMsg, x.isErr = basicExpected(name, args, e.params)
	return x
}

func jsonEqual(a, b json.RawMessage) bool {
	var x, y interface{}
	da := json.NewDecoder(bytes.NewReader(a))
	da.UseNumber()
	db := json.NewDecoder(bytes.NewReader(b))
	db.UseNumber()
	if da.Decode(&x) != nil || db.Decode(&y) != nil {
		return false
	}
	return reflect.DeepEqual(normNumbers(x), normNumbers(y))
}

func normNumbers(v interface{}) interface{} {
	switch t := v.(type) {
	case json.Number:
		if f, err := strconv.ParseFloat(string(t), 64); err == nil {
			return f
		}
		return string(t)
	case []interface{}:
		for i := range t {
			t[i] = normNumbers(t[i])
		}
		return t
	case map[string]interface{}:
		for k := range t {
			t[k] = normNumbers(t[k])
		}
		return t
	}
	return v
}

func idMatches(e reqElem, r *respObj) bool {
	if e.idStr != nil {
		return r.idStr != nil && *r.idStr == *e.idStr
	}
	if e.idNum != nil {
		return r.idNum != nil && *r.idNum == *e.idNum
	}
	return false
}

func checkRespAgainst(e reqElem, x elemExpect, r *respObj) *Violation {
	if x.anyError {
		if !r.hasErr {
			return violf("missing-error", "request that must be rejected got a result: %s", trunc(string(r.resultJS), 120))
		}
		return nil
	}
	if len(x.codes) > 0 {
		if !r.hasErr {
			return violf("missing-error", "request that must be rejected with %v got a result", x.codes)
		}
		for _, c := range x.codes {
			if r.errCode == c {
				return nil
			}
		}
		return violf("wrong-error-code", "method %q params %s: error code %d, expected %v", e.method, trunc(string(e.params), 80), r.errCode, x.codes)
	}
	if x.isErr {
		if !r.hasErr {
			return violf("handler-error-lost", "handler of %q failed with %q but the response carries a result %s", e.method, x.errMsg, trunc(string(r.resultJS), 120))
		}
		if r.errMsg != x.errMsg {
			return violf("handler-error-message", "handler error %q arrived as %q", x.errMsg, r.errMsg)
		}
		return nil
	}
	if r.hasErr {
		return violf("unexpected-error", "valid call of %q params %s answered with error %d %q", e.method, trunc(string(e.params), 80), r.errCode, r.errMsg)
	}
	if !jsonEqual(r.resultJS, x.result) {
		return violf("wrong-result", "call of %q params %s: result %s, expected %s", e.method, trunc(string(e.params), 80), trunc(string(r.resultJS), 120), trunc(string(x.result), 120))
	}
	return nil
}

// splitBody classifies an HTTP body per the statement.
type bodyClass struct {
	kind    string // "empty", "malformed", "trailing", "scalar", "single", "batch", "emptybatch"
	elems   []reqElem
	lenient bool
}

func classifyBody(body []byte) bodyClass {
	t := bytes.Trim(body, " \t\r\n")
	if !bytes.Equal(t, bytes.TrimSpace(body)) {
		// padded with characters that are white space to Unicode but not to JSON: statement silent
		return bodyClass{kind: "trailing", lenient: true}
	}
	if len(t) == 0 {
		return bodyClass{kind: "empty"}
	}
	dec := json.NewDecoder(bytes.NewReader(t))
	var first json.RawMessage
	if err := dec.Decode(&first); err != nil {
		return bodyClass{kind: "malformed"}
	}
	if off := int(dec.InputOffset()); off < len(t) && len(bytes.Trim(t[off:], " \t\r\n")) > 0 {
		return bodyClass{kind: "trailing", lenient: true}
	}
	switch first[0] {
	case '{':
		e := parseReqElem(first)
		return bodyClass{kind: "single", elems: []reqElem{e}, lenient: e.lenient}
	case '[':
		var els []json.RawMessage
		_ = json.Unmarshal(first, &els)
		if len(els) == 0 {
			return bodyClass{kind: "emptybatch"}
		}
		bc := bodyClass{kind: "batch"}
		for _, r := range els {
			e := parseReqElem(r)
			if e.lenient {
				bc.lenient = true
			}
			bc.elems = append(bc.elems, e)
		}
		return bc
	}
	return bodyClass{kind: "scalar"}
}

// checkHTTPReply is the C09 oracle for one request body -> reply pair.
// calls is the per-method invocation count observed while serving the body.
func checkHTTPReply(body, reply []byte, calls map[string]int) *Violation {
	bc := classifyBody(body)
	sh, v := parseReply(reply)
	if v != nil {
		if bc.kind == "batch" {
			hasNotif, hasInvalid := false, false
			for _, e := range bc.elems {
				if e.idKind == idAbsent || e.idKind == idNullK {
					hasNotif = true
				}
				if e.idKind == idInvalid {
					hasInvalid = true
				}
			}
			if hasInvalid {
				v.Key = "batch-invalid-id-truncated"
			} else if hasNotif {
				v.Key = "batch-notification-comma"
			}
		}
		return v
	}
	total := 0
	for _, n := range calls {
		total += n
	}
	noRun := func(what string) *Violation {
		if total != 0 {
			return violf("handler-ran-on-rejected", "%s but handlers ran: %v", what, calls)
		}
		return nil
	}
	single := func(code int64, what string) *Violation {
		if sh.empty || sh.array || len(sh.objs) != 1 {
			return violf("protocol-error-shape", "%s must be answered with one error object, got %s", what, trunc(string(reply), 200))
		}
		o := sh.objs[0]
		if !o.hasErr || (code != 0 && o.errCode != code) {
			return violf("wrong-error-code", "%s: expected error %d, got hasErr=%v code=%d", what, code, o.hasErr, o.errCode)
		}
		if !o.idNull {
			return violf("id-not-null", "%s: id must be null when it could not be determined", what)
		}
		return noRun(what)
	}
	switch bc.kind {
	case "empty":
		return single(-32600, "empty request")
	case "emptybatch":
		return single(-32600, "empty batch")
	case "malformed":
		return single(-32700, "malformed JSON")
	case "scalar":
		return single(0, "non-request JSON value")
	case "trailing":
		return nil // well-formedness only: statement silent on a valid value followed by garbage
	}
	if bc.lenient {
		if sh.empty {
			for _, e := range bc.elems {
				if !e.lenient && e.idKind == idValid {
					return violf("missing-response", "empty reply although the body holds an id-bearing request")
				}
			}
		}
		return nil
	}

	// precise model
	wantRuns := map[string]int{}
	exps := make([]elemExpect, len(bc.elems))
	for i, e := range bc.elems {
		exps[i] = expectElem(e)
		if exps[i].run != "" {
			wantRuns[exps[i].run]++
		}
	}
	for m, n := range wantRuns {
		if calls[m] != n {
			key := "handler-run-count"
			if calls[m] > n {
				key = "handler-ran-too-often"
			}
			return violf(key, "method %s ran %d times, expected %d (all: %v)", m, calls[m], n, calls)
		}
	}
	for m, n := range calls {
		if wantRuns[m] != n {
			return violf("handler-ran-on-rejected", "method %s ran %d times, expected %d", m, n, wantRuns[m])
		}
	}

	if bc.kind == "single" {
		e, x := bc.elems[0], exps[0]
		switch e.idKind {
		case idValid:
			if sh.empty || sh.array || len(sh.objs) != 1 {
				return violf("missing-response", "single id-bearing request must get exactly one response object, got %s", trunc(string(reply), 200))
			}
			if !idMatches(e, sh.objs[0]) {
				return violf("id-mismatch", "response id differs from request id: %s", trunc(string(reply), 200))
			}
			return checkRespAgainst(e, x, sh.objs[0])
		case idInvalid:
			if sh.empty || sh.array || !sh.objs[0].hasErr || !sh.objs[0].idNull {
				return violf("invalid-id-reply", "request with an invalid id type must get an error with id null, got %s", trunc(string(reply), 200))
			}
			return nil
		default: // notification or explicit null id
			if sh.empty {
				return nil
			}
			if e.idKind == idAbsent && x.run != "" {
				// a well-formed notification whose handler runs: whatever the handler returns, nothing is sent back
				return violf("notification-answered", "notification to %s (handler ran) got a response: %s", x.run, trunc(string(reply), 200))
			}
			if sh.array || !sh.objs[0].idNull {
				return violf("notification-answered", "notification got a response with an id: %s", trunc(string(reply), 200))
			}
			if e.idKind == idAbsent && !sh.objs[0].hasErr {
				return violf("notification-answered", "notification got a result response: %s", trunc(string(reply), 200))
			}
			return nil
		}
	}

	// batch
	var valid []int
	nInvalid, nOptional := 0, 0
	for i, e := range bc.elems {
		switch e.idKind {
		case idValid:
			valid = append(valid, i)
		case idInvalid:
			nInvalid++
		default:
			// a notification the library rejects (unknown method, wrong arity, ...) is answered with a null-id error
			// by this library; one whose handler runs is never answered, whatever the handler returns
			if e.idKind != idAbsent || exps[i].run == "" {
				nOptional++
			}
		}
	}
	if sh.empty {
		if len(valid) > 0 || nInvalid > 0 {
			return violf("missing-response", "empty reply for a batch with %d id-bearing requests", len(valid)+nInvalid)
		}
		return nil
	}
	if !sh.array {
		return violf("batch-reply-not-array", "batch answered with a non-array: %s", trunc(string(reply), 200))
	}
	var withID []*respObj
	nNull := 0
	for _, o := range sh.objs {
		if o.idNull {
			nNull++
			if !o.hasErr {
				// a result with id null is only acceptable for an explicit "id": null request
				okNull := false
				for _, e := range bc.elems {
					if e.idKind == idNullK {
						okNull = true
					}
				}
				if !okNull {
					return violf("notification-answered", "batch reply holds a result with id null")
				}
			}
		} else {
			withID = append(withID, o)
		}
	}
	if len(withID) != len(valid) {
		return violf("batch-response-count", "batch with %d valid-id requests got %d id-bearing responses: %s", len(valid), len(withID), trunc(string(reply), 300))
	}
	for k, i := range valid {
		if !idMatches(bc.elems[i], withID[k]) {
			return violf("batch-order", "response %d does not echo the id of valid-id request %d (request order): %s", k, k, trunc(string(reply), 300))
		}
		if v := checkRespAgainst(bc.elems[i], exps[i], withID[k]); v != nil {
			return v
		}
	}
	if nNull < nInvalid || nNull > nInvalid+nOptional {
		return violf("batch-null-id-count", "batch reply holds %d null-id responses; %d invalid-id requests and %d notifications", nNull, nInvalid, nOptional)
	}
	return nil
}

// hasDuplicateKeys reports whether the top-level object repeats a member name
// (compared case-insensitively, as encoding/json matches struct fields).
func hasDuplicateKeys(obj []byte) bool {
	dec := json.NewDecoder(bytes.NewReader(obj))
	if tok, err := dec.Token(); err != nil || tok != json.Delim('{') {
		return false
	}
	seen := map[string]bool{}
	for dec.More() {
		tok, err := dec.Token()
		if err != nil {
			return false
		}
		k, ok := tok.(string)
		if !ok {
			return false
		}
		k = strings.ToLower(k)
		if seen[k] {
			return true
		}
		seen[k] = true
		var skip json.RawMessage
		if dec.Decode(&skip) != nil {
			return false
		}
	}
	return false
}
