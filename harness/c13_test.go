package harness

// C13 - a panicking handler fails only its own call.
//
// Generator: panic payload x call kind {unary, notification, channel-returning,
// reverse (client-side handler)} x a mix of concurrently running healthy calls
// and a stream x {ws, http}; the server runs in a child process. Oracle: the
// panicking call returns an error mentioning the panic, the child stays alive,
// siblings produce exactly their own results, later probes succeed on the same
// and on a fresh connection.

import (
	"context"
	"encoding/json"
	"fmt"
	"strings"
	"sync"
	"testing"
	"time"

	jsonrpc "github.com/filecoin-project/go-jsonrpc"
	"pgregory.net/rapid"
)

type c13Case struct {
	Transport string `json:"transport"`        // ws | http
	Kind      string `json:"kind"`             // unary | notify | sub | reverse | noctx | cancel_then_panic
	Payload   string `json:"payload"`          // string | error | nilmap | nilptr | custom | index
	Siblings  int    `json:"siblings"`         // gated healthy calls in flight on the same client while the panic happens
	Stream    int    `json:"stream"`           // length of a concurrently running stream (0 = none; ws only)
	Repeat    int    `json:"repeat"`           // panicking calls in a row
	Parallel  int    `json:"parallel"`         // additional panicking unary calls fired at the same instant (several connections, both transports)
	Traced    bool   `json:"traced,omitempty"` // talk to the hosted server that was built with a tracer
}

type c13Env struct {
	mu   sync.Mutex
	host *hostProc
	seq  int
}

func (e *c13Env) get() (*hostProc, error) {
	if e.host != nil && e.host.Alive() {
		return e.host, nil
	}
	h, err := startHost("server")
	if err != nil {
		return nil, err
	}
	e.host = h
	return h, nil
}

func (e *c13Env) Close() {
	if e.host != nil {
		e.host.Kill()
	}
}

type asyncRes struct {
	done chan struct{}
	res  Result
	err  error
}

func goCall(fn func() (Result, error)) *asyncRes {
	a := &asyncRes{done: make(chan struct{})}
	go func() {
		defer close(a.done)
		defer func() {
			if x := recover(); x != nil {
				a.err = fmt.Errorf("CLIENT-PANIC: %v", x)
			}
		}()
		a.res, a.err = fn()
	}()
	return a
}

func (a *asyncRes) wait(d time.Duration) bool {
	select {
	case <-a.done:
		return true
	case <-time.After(d):
		return false
	}
}

func (e *c13Env) run(c c13Case) *Violation {
	e.mu.Lock()
	defer e.mu.Unlock()
	h, err := e.get()
	if err != nil {
		return nil
	}
	e.seq++
	pfx := fmt.Sprintf("p%d", e.seq)
	died := func() *Violation {
		return violf("process-died-on-panic", "the process hosting the server died after a handler panic (%s/%s): %v", c.Kind, c.Payload, h.Stderr(10))
	}

	var cl TokClient
	var closer jsonrpc.ClientCloser
	rev := &RevHandler{ID: "parent"}
	path := ""
	if c.Traced {
		path = "/traced"
	}
	if c.Transport == "http" {
		var hc struct {
			Call   func(ctx context.Context, tok string, plan Plan) (Result, error)
			Notify func(ctx context.Context, tok string, plan Plan) error `notify:"true"`
			NoCtx  func(tok string, plan Plan) (Result, error)            `rpc_method:"Tok.Call"`
		}
		closer, err = jsonrpc.NewMergeClient(context.Background(), "http://"+h.addr+path, "Tok", []interface{}{&hc}, nil)
		cl.Call, cl.Notify, cl.NoCtx = hc.Call, hc.Notify, hc.NoCtx
	} else {
		closer, err = jsonrpc.NewMergeClient(context.Background(), "ws://"+h.addr+path, "Tok", []interface{}{&cl}, nil, jsonrpc.WithClientHandler("Rev", rev))
	}
	if err != nil {
		if !h.Alive() {
			return died()
		}
		return nil
	}
	defer bounded(3*time.Second, func() { closer() })

	// siblings: healthy gated calls and a paced stream that are in progress while the panic happens
	var sibs []*asyncRes
	var sibToks []string
	for i := 0; i < c.Siblings; i++ {
		tok := fmt.Sprintf("%s-sib%d", pfx, i)
		sibToks = append(sibToks, tok)
		sibs = append(sibs, goCall(func() (Result, error) { return cl.Call(context.Background(), tok, Plan{Gate: true}) }))
	}
	var stream <-chan Item
	streamTok := pfx + "-stream"
	if c.Stream > 0 && c.Transport == "ws" {
		ctx, cancel := context.WithCancel(context.Background())
		defer cancel()
		ch, err := cl.Sub(ctx, streamTok, Plan{N: c.Stream, Early: 1})
		if err != nil {
			return violf("sibling-stream-failed", "healthy subscription failed: %v", err)
		}
		stream = ch
	}

	if c.Parallel > 0 {
		// several handlers panic at (nearly) the same instant, on this and on further connections
		var extra []jsonrpc.ClientCloser
		var burst []*asyncRes
		var start sync.WaitGroup
		start.Add(1)
		for i := 0; i < c.Parallel; i++ {
			tok := fmt.Sprintf("%s-par%d", pfx, i)
			call := cl.Call
			if i%2 == 1 {
				var c2 struct {
					Call func(ctx context.Context, tok string, plan Plan) (Result, error)
				}
				addr := "ws://" + h.addr + path
				if i%4 == 3 {
					addr = "http://" + h.addr
				}
				if cc, err := jsonrpc.NewMergeClient(context.Background(), addr, "Tok", []interface{}{&c2}, nil); err == nil {
					extra = append(extra, cc)
					call = c2.Call
				}
			}
			burst = append(burst, goCall(func() (Result, error) {
				start.Wait()
				return call(context.Background(), tok, Plan{Panic: c.Payload})
			}))
		}
		time.Sleep(2 * time.Millisecond)
		start.Done()
		for _, a := range burst {
			if !a.wait(5 * time.Second) {
				if !h.Alive() {
					return died()
				}
				return violf("panicking-call-hangs", "one of %d simultaneously panicking calls did not return within 5s", c.Parallel)
			}
			if a.err == nil || !strings.Contains(strings.ToLower(a.err.Error()), "panic") {
				if !h.Alive() {
					return died()
				}
				return violf("panic-not-mentioned", "one of %d simultaneously panicking calls returned %v", c.Parallel, a.err)
			}
		}
		for _, cc := range extra {
			cc := cc
			bounded(2*time.Second, func() { cc() })
		}
		if !h.Alive() || h.DiedWithin(10*time.Millisecond) {
			return died()
		}
	}
	for r := 0; r < c.Repeat; r++ {
		tok := fmt.Sprintf("%s-boom%d", pfx, r)
		plan := Plan{Panic: c.Payload}
		var a *asyncRes
		switch c.Kind {
		case "unary":
			a = goCall(func() (Result, error) { return cl.Call(context.Background(), tok, plan) })
		case "noctx":
			a = goCall(func() (Result, error) { return cl.NoCtx(tok, plan) })
		case "notify":
			a = goCall(func() (Result, error) { return Result{}, cl.Notify(context.Background(), tok, plan) })
		case "sub":
			a = goCall(func() (Result, error) {
				_, err := cl.Sub(context.Background(), tok, plan)
				return Result{}, err
			})
		case "reverse":
			a = goCall(func() (Result, error) { return cl.Call(context.Background(), tok, Plan{RevBoom: true}) })
		case "cancel_then_panic":
			// the caller cancels; the handler's clean-up path panics after its context is done; the caller must
			// still get the (error) response for its request
			ctx, cancel := context.WithCancel(context.Background())
			a = goCall(func() (Result, error) {
				return cl.Call(ctx, tok, Plan{Gate: true, WatchCtx: true, Panic: c.Payload})
			})
			time.Sleep(5 * time.Millisecond)
			cancel()
		}
		if !a.wait(5 * time.Second) {
			if !h.Alive() {
				return died()
			}
			return violf("panicking-call-hangs", "the call whose handler panicked (%s/%s) did not return within 5s", c.Kind, c.Payload)
		}
		if !h.Alive() || h.DiedWithin(10*time.Millisecond) {
			return died()
		}
		switch c.Kind {
		case "notify":
			if a.err != nil {
				return violf("notify-error", "notification whose handler panics returned %v on a healthy link", a.err)
			}
		case "reverse":
			if a.err != nil {
				return violf("reverse-panic-failed-forward-call", "forward call failed although only the client-side handler panicked: %v", a.err)
			}
			if !strings.Contains(a.res.Rev, "boom:") || !strings.Contains(a.res.Rev, "panic") {
				return violf("reverse-panic-not-reported", "reverse call into a panicking client handler returned %q (expected an error mentioning the panic)", a.res.Rev)
			}
		default:
			if a.err == nil {
				return violf("panic-without-error", "handler panicked (%s/%s) but the caller got a nil error and %+v", c.Kind, c.Payload, a.res)
			}
			// (case-insensitive: when the payload's own Error method panics, fmt renders the text as "%!v(PANIC=...)")
			if !strings.Contains(strings.ToLower(a.err.Error()), "panic") {
				return violf("panic-not-mentioned", "handler panicked (%s/%s); the caller's error does not mention it: %v", c.Kind, c.Payload, a.err)
			}
		}
	}

	// siblings behave as if nothing had happened
	for i, tok := range sibToks {
		h.Send("release " + tok)
		if !sibs[i].wait(5 * time.Second) {
			if !h.Alive() {
				return died()
			}
			return violf("sibling-hangs", "healthy sibling call %s did not return after the panic", tok)
		}
		if sibs[i].err != nil {
			return violf("sibling-failed", "healthy sibling call %s failed after the panic: %v", tok, sibs[i].err)
		}
		if sibs[i].res.Tok != tok || sibs[i].res.Echo != expectedEcho(tok) {
			return violf("foreign-result", "sibling %s got %+v", tok, sibs[i].res)
		}
	}
	if stream != nil {
		items, closed := drain(stream, 5*time.Second)
		if !closed || len(items) != c.Stream {
			return violf("sibling-stream-broken", "healthy stream delivered %d of %d values (closed=%v) after the panic", len(items), c.Stream, closed)
		}
		for i, it := range items {
			if it.Tok != streamTok || it.Seq != i {
				return violf("sibling-stream-broken", "healthy stream value %d is %+v", i, it)
			}
		}
	}
	// same connection / client still works
	probe := goCall(func() (Result, error) { return cl.Call(context.Background(), pfx+"-probe", Plan{}) })
	if !probe.wait(5*time.Second) || probe.err != nil || probe.res.Tok != pfx+"-probe" {
		if !h.Alive() {
			return died()
		}
		return violf("same-connection-broken", "a call on the same client after the panic failed: %v %+v", probe.err, probe.res)
	}
	if err := wsProbe(h.addr, nil, "c13"); err != nil {
		if !h.Alive() {
			return died()
		}
		return violf("fresh-connection-broken", "a call on a fresh connection after the panic failed: %v", err)
	}
	return nil
}

var c13Payloads = []string{"string", "error", "nilmap", "nilptr", "custom", "index", "nilstringer", "nilerror", "funcstruct", "chan", "nan", "ctrlbytes", "badutf8", "longnoblank", "aborthandler", "eof", "ctxcanceled"}

const c13Rule = "panic payload {string, error, nil-map write, nil dereference, custom struct, index out of range, unmarshalable and self-panicking values, sentinel errors such as http.ErrAbortHandler} x server built {without, with} a tracer x call kind {unary, no-context, notification, channel-returning, reverse (panic in the client-side handler)} x 0-4 healthy gated sibling calls and an optional paced stream in progress on the same connection x 1-3 panics in a row x {ws, http}; server hosted in a child process. Complete grid of payload x kind x transport plus rapid-generated mixes. Non-trivial = at least one sibling or stream in progress, or a non-string payload; distinct by descriptor hash"

func TestC13(t *testing.T) {
	env := &c13Env{}
	defer env.Close()
	rec := NewRec("C13", c13Rule)
	defer rec.Finish(t)
	rec.EnableJournal()
	rec.RequireClass("traced_server", "payload_aborthandler", "payload_ctrlbytes", "payload_badutf8", "payload_longnoblank", "simultaneous_panics", "payload_funcstruct", "payload_nan", "kind_cancel_then_panic", "payload_nilstringer", "payload_nilerror", "kind_unary", "kind_notify", "kind_sub", "kind_reverse", "tr_http", "tr_ws", "with_siblings", "with_stream")
	run := func(ft failer, c c13Case) {
		cl := []string{"kind_" + c.Kind, "tr_" + c.Transport, "payload_" + c.Payload}
		if c.Traced {
			cl = append(cl, "traced_server")
		}
		if c.Siblings > 0 {
			cl = append(cl, "with_siblings")
		}
		if c.Parallel > 0 {
			cl = append(cl, "simultaneous_panics")
		}
		if c.Stream > 0 && c.Transport == "ws" {
			cl = append(cl, "with_stream")
		}
		rec.Run(ft, c, c.Siblings > 0 || c.Stream > 0 || c.Payload != "string", cl, func() *Violation { return env.run(c) })
	}
	t.Run("grid", func(t *testing.T) {
		for _, tr := range []string{"ws", "http"} {
			for _, k := range []string{"unary", "noctx", "notify", "sub", "reverse", "cancel_then_panic"} {
				if tr == "http" && (k == "sub" || k == "reverse" || k == "cancel_then_panic") {
					continue
				}
				for i, p := range c13Payloads {
					if (k == "reverse" || k == "cancel_then_panic") && i > 0 {
						continue
					}
					run(t, c13Case{Transport: tr, Kind: k, Payload: p, Siblings: i % 3, Stream: (i % 2) * 5, Repeat: 1, Parallel: (i % 3) * 8, Traced: (i+len(k))%2 == 0})
				}
			}
		}
	})
	rec.Rapid(t, "rapid", func(rt *rapid.T) {
		c := c13Case{Transport: rapid.SampledFrom([]string{"ws", "ws", "http"}).Draw(rt, "transport"), Payload: rapid.SampledFrom(c13Payloads).Draw(rt, "payload"),
			Siblings: rapid.IntRange(0, 4).Draw(rt, "siblings"), Stream: rapid.SampledFrom([]int{0, 0, 3, 40}).Draw(rt, "stream"), Repeat: rapid.IntRange(1, 3).Draw(rt, "repeat"), Parallel: rapid.SampledFrom([]int{0, 0, 4, 12}).Draw(rt, "parallel")}
		kinds := []string{"unary", "noctx", "notify"}
		if c.Transport == "ws" {
			kinds = append(kinds, "sub", "reverse", "cancel_then_panic")
		}
		c.Kind = rapid.SampledFrom(kinds).Draw(rt, "kind")
		c.Traced = rapid.Bool().Draw(rt, "traced")
		run(rt, c)
	})
}

func TestC13Replay(t *testing.T) {
	env := &c13Env{}
	defer env.Close()
	Replay(t, "C13", 3, func(raw json.RawMessage) *Violation {
		var c c13Case
		if err := json.Unmarshal(raw, &c); err != nil {
			return nil
		}
		return env.run(c)
	})
}
