package harness

// C05 - reconnecting clients heal themselves; retry-tagged calls ride out outages.
//
// Generator: outage scripts on the fault engine (fault kind x position, k refused
// redials before the server is reachable again, optional second fault right
// after reconnect) x backoff settings x {reconnect, no-reconnect} x {retry-tagged,
// untagged} x {error mapping on, off}; plus direct PBT of the backoff function.
// Oracle: (a) after heal a probe succeeds without recreating the client; (b)
// retry-tagged calls return their genuine result; (c) untagged calls surface the
// connection error, typed iff mapping is on; (d) redial gaps respect the
// exponential backoff lower bound (timers never fire early, so load cannot
// falsify it) and the pure function stays within (0, max]; (e) a no-reconnect
// client never redials.

import (
	"encoding/json"
	"errors"
	"fmt"
	"math"
	"strings"
	"testing"
	"time"

	jsonrpc "github.com/filecoin-project/go-jsonrpc"
	"pgregory.net/rapid"
)

func runC05(c fsCase) (*Violation, *fsOutcome) {
	o := runFaultSim(c)
	defer o.finish()
	if o.Infra != "" {
		return nil, o
	}
	mn, mx := c.backoff()
	// (e) no-reconnect clients never redial
	if c.NoReconnect {
		if n := len(o.DialBegins); n > 1 {
			return violf("noreconnect-redialled", "a no-reconnect client dialled %d times", n), o
		}
	} else if c.Fault != nil {
		// (a) self-healing
		if !o.HealedOK {
			key := "never-healed"
			if o.LateProbeErr != nil && strings.HasPrefix(o.LateProbeErr.Error(), "FOREIGN-RESULT") {
				key = "foreign-result"
			}
			return violf(key, "the server was reachable again but no probe succeeded within %v (last error: %v; %d dials, results %v)", 50*mx+3*time.Second, o.LateProbeErr, len(o.DialBegins), tailBools(o.DialResults, 8)), o
		}
	}
	// (d) spacing of redials: attempt number k within an outage = consecutive failures before it
	begins, results := o.DialBegins, o.DialResults
	k := 0
	for i := 1; i < len(begins) && i <= len(results); i++ {
		if results[i-1] {
			k = 0
		} else if i-1 >= 1 {
			k++
		}
		if i >= 2 && k >= 1 {
			// gap between the end of the previous failed attempt and the start of this one
			prevEnd := begins[i-1] // begin is a lower bound for the end, which keeps this a pure lower bound
			gap := begins[i].Sub(prevEnd)
			want := time.Duration(math.Min(float64(mn)*math.Pow(1.5, float64(k)), float64(mx)))
			if float64(gap) < 0.9*float64(want) {
				key := "redial-too-early"
				if k > 60 {
					key = "backoff-overflow-busyloop"
				}
				return violf(key, "redial attempt %d of an outage began %v after the previous one; backoff(min %v, max %v) requires at least %v", k, gap, mn, mx, want), o
			}
		}
	}
	for _, co := range o.Calls {
		if !co.P.Returned() {
			continue
		}
		err := co.P.Err
		var typed *jsonrpc.RPCConnectionError
		isTyped := err != nil && errors.As(err, &typed)
		var gen *jsonrpc.JSONRPCError
		isGenericConn := err != nil && errors.As(err, &gen) && gen.Code == -1111111
		switch co.Kind {
		case "retry":
			// (b) retry-tagged calls never surface the temporary connection error
			if (isTyped || isGenericConn) && !c.NoReconnect {
				return violf("retry-surfaced-connection-error", "retry-tagged call %s (issued %s) returned the connection error %v", co.P.Tok, co.When, err), o
			}
			if err == nil {
				if v := co.P.CheckOwn(); v != nil {
					return v, o
				}
			}
		case "call", "noctx":
			// (c) typed iff mapping is on
			if c.WithErrors && isGenericConn {
				return violf("connection-error-not-typed", "error mapping is on but call %s got the untyped connection error %v", co.P.Tok, err), o
			}
			if !c.WithErrors && isTyped {
				return violf("connection-error-typed-without-mapping", "error mapping is off but call %s got %T", co.P.Tok, err), o
			}
		}
	}
	if !c.NoReconnect {
		for _, p := range o.Undecided {
			if p.Kind == "retry" {
				return violf("retry-never-returned", "retry-tagged call %s still outstanding %v after the link healed", p.Tok, time.Since(o.HealAt)), o
			}
		}
	}
	if v := o.commonFaultOracle(); v != nil {
		return v, o
	}
	return nil, o
}

func tailBools(b []bool, n int) []bool {
	if len(b) > n {
		return b[len(b)-n:]
	}
	return b
}

func c05NT(c fsCase) (bool, []string) {
	_, cl := fsClasses(c)
	nt := c.Refused >= 1 || c.Fault2 != nil
	if c.Refused > 75 {
		cl = append(cl, "long_outage")
	}
	if c.OutageMs >= 9000 {
		cl = append(cl, "outage_longer_than_9s")
	}
	if c.WithErrors {
		cl = append(cl, "with_errors")
	}
	if c.RefuseHow != "" && c.Refused > 0 {
		cl = append(cl, "refused_by_"+c.RefuseHow)
	}
	return nt, cl
}

const c05Rule = "outage scripts: fault (kind x direction x frame x position) -> k in 0..90 refused redials (TCP reset, or an HTTP 503 / plain 200 answer instead of the protocol switch) -> server reachable again -> optional second fault on the new connection; backoff min 1-20 ms / max 5-100 ms; {reconnect, no-reconnect} x {retry-tagged (with and without a context parameter), untagged} x {error mapping on, off}; plus direct generation of (min, max, attempt) for the backoff function over [1us,1h] x [0,10^6]. one outage held for 9.5 s (26 s thorough) so that retry-tagged calls sleep through ten and more of their own back-off steps. Non-trivial = at least one failed redial before heal, or a second fault, or an outage longer than 75 attempts; distinct by descriptor hash"

func TestC05(t *testing.T) {
	rec := NewRec("C05", c05Rule)
	defer rec.Finish(t)
	rec.EnableJournal()
	rec.RequireClass("refused_redials", "double_fault", "no_reconnect", "with_errors", "has_retry", "backoff_pure")
	if sh0, _ := shard(); sh0 == 0 {
		rec.RequireClass("outage_longer_than_9s", "refused_by_http503", "long_outage") // grid cases of the first shard
	}

	run := func(ft failer, c fsCase) {
		nt, cl := c05NT(c)
		rec.Run(ft, c, nt, cl, func() *Violation {
			if c.Refused > 60 && rec.IsKnown("backoff-overflow-busyloop") {
				rec.Excluded()
				c.Refused = 40
			}
			v, o := runC05(c)
			if v != nil && v.Key != "foreign-result" && v.Key != "noreconnect-redialled" && v.Key != "connection-error-not-typed" && v.Key != "connection-error-typed-without-mapping" {
				if v2, _ := runC05(c); v2 == nil {
					rec.Class("unconfirmed", 1)
					return nil
				}
			}
			if o.HealedOK {
				rec.Class("healed", 1)
			}
			return v
		})
	}

	// (d) pure backoff function
	rec.Regress(t, func(raw json.RawMessage) *Violation {
		var probe map[string]json.RawMessage
		_ = json.Unmarshal(raw, &probe)
		if _, ok := probe["attempt"]; ok {
			var x struct {
				Min     int64 `json:"backoff_min_ns"`
				Max     int64 `json:"backoff_max_ns"`
				Attempt int   `json:"attempt"`
			}
			_ = json.Unmarshal(raw, &x)
			return checkBackoff(time.Duration(x.Min), time.Duration(x.Max), x.Attempt)
		}
		c, ok := parseFsCase(raw)
		if !ok {
			return nil
		}
		v, _ := runC05(c)
		return v
	})
	t.Run("backoff", func(t *testing.T) {
		check := func(ft failer, mnN, mxN int64, attempt int) {
			mn, mx := time.Duration(mnN), time.Duration(mxN)
			desc := map[string]interface{}{"backoff_min_ns": mnN, "backoff_max_ns": mxN, "attempt": attempt}
			rec.Run(ft, desc, attempt > 40, []string{"backoff_pure"}, func() *Violation {
				if attempt > 60 && rec.IsKnown("backoff-overflow-busyloop") {
					rec.Excluded()
					return nil
				}
				return checkBackoff(mn, mx, attempt)
			})
		}
		for _, a := range []int{0, 1, 2, 10, 40, 61, 62, 63, 74, 75, 90, 100, 1000, 100000} {
			check(t, int64(100*time.Millisecond), int64(5*time.Second), a)
			check(t, int64(time.Millisecond), int64(5*time.Millisecond), a)
		}
		rec.Rapid(t, "rapid", func(rt *rapid.T) {
			mnN := rapid.Int64Range(int64(time.Microsecond), int64(time.Hour)).Draw(rt, "min")
			mxN := rapid.Int64Range(mnN, int64(time.Hour)).Draw(rt, "max")
			var a int
			if rapid.Bool().Draw(rt, "big") {
				a = rapid.IntRange(0, 1000000).Draw(rt, "attempt_big")
			} else {
				a = rapid.IntRange(0, 120).Draw(rt, "attempt")
			}
			check(rt, mnN, mxN, a)
		})
	})

	t.Run("grid", func(t *testing.T) {
		base := []fsCall{
			{Kind: "call", Plan: Plan{Gate: true}, When: "pre"}, {Kind: "retry", Plan: Plan{Gate: true}, When: "pre"}, {Kind: "call", When: "pre"},
			{Kind: "retry", When: "noticed"}, {Kind: "call", When: "window"}, {Kind: "retry", When: "window"}, {Kind: "call", When: "healed"},
			{Kind: "retry", Plan: Plan{Gate: true, NoCtx: true}, When: "pre"}, {Kind: "retry", Plan: Plan{NoCtx: true}, When: "window"},
		}
		sh, nsh := shard()
		k := 0
		refused := []int{0, 1, 3, 10}
		if thorough() {
			refused = []int{0, 1, 2, 3, 5, 10, 25, 50}
		}
		for _, r := range refused {
			for _, we := range []bool{false, true} {
				for _, kind := range []string{"fin", "rst", "wsclose"} {
					k++
					if k%nsh != sh {
						continue
					}
					run(t, fsCase{Calls: base, Fault: &Fault{Dir: faultDirs[k%2], Frame: k % 3, Pos: faultPos[k%5], Kind: kind}, Refused: r, BackoffMinMs: 2, BackoffMaxMs: 10, WithErrors: we})
				}
			}
		}
		if sh == 0 {
			// a long outage: more failed redials than it takes 1.5^n to leave the int64 range
			run(t, fsCase{Calls: base[:4], Fault: &Fault{Dir: "s2c", Frame: 0, Pos: "after", Kind: "fin"}, Refused: 90, BackoffMinMs: 1, BackoffMaxMs: 5})
			run(t, fsCase{Calls: base, Fault: &Fault{Dir: "c2s", Frame: 1, Pos: "mid", Kind: "rst"}, Fault2: &Fault{Dir: "s2c", Frame: 0, Pos: "mid", Kind: "fin"}, Refused: 2, BackoffMinMs: 2, BackoffMaxMs: 8, WithErrors: true})
			run(t, fsCase{Calls: base, Fault: &Fault{Dir: "c2s", Frame: 0, Pos: "after", Kind: "fin"}, NoReconnect: true})
			run(t, fsCase{Calls: base, Fault: &Fault{Dir: "s2c", Frame: 1, Pos: "mid", Kind: "rst"}, NoReconnect: true, WithErrors: true})
			run(t, fsCase{Calls: base, Fault: &Fault{Dir: "s2c", Frame: 1, Pos: "before", Kind: "blackhole"}, Refused: 2, BackoffMinMs: 2, BackoffMaxMs: 8})
			// an outage that is long in time rather than in attempts: retry-tagged calls in flight at the loss and issued in the
			// window have slept through ten and more of their own back-off steps (100 ms x 1.5^n) when the server is back
			longMs := []int{9500}
			if thorough() {
				longMs = []int{9500, 26000}
			}
			for _, ms := range longMs {
				run(t, fsCase{Calls: []fsCall{{Kind: "retry", Plan: Plan{Gate: true}, When: "pre"}, {Kind: "call", Plan: Plan{Gate: true}, When: "pre"}, {Kind: "retry", When: "window"}, {Kind: "retry", Plan: Plan{NoCtx: true}, When: "window"}, {Kind: "call", When: "healed"}},
					Fault: &Fault{Dir: "s2c", Frame: 0, Pos: "after", Kind: "rst"}, Refused: 3, OutageMs: ms, BackoffMinMs: 20, BackoffMaxMs: 250, WithErrors: true})
			}
			// redials that reach an HTTP endpoint which is not (yet) the service
			for _, how := range []string{"http503", "http200"} {
				for _, r := range []int{1, 4} {
					run(t, fsCase{Calls: base, Fault: &Fault{Dir: "s2c", Frame: 0, Pos: "after", Kind: "rst"}, Refused: r, RefuseHow: how, BackoffMinMs: 2, BackoffMaxMs: 10, WithErrors: r == 4})
				}
			}
		}
	})

	rec.Rapid(t, "rapid", func(rt *rapid.T) {
		c := fsCase{Calls: genFsCalls(rt, []string{"call", "call", "retry", "retry", "noctx", "notify"}, []string{"pre", "pre", "noticed", "window", "window", "healed"}, 2, 7)}
		npre := 0
		for i := range c.Calls {
			if c.Calls[i].When == "pre" {
				npre++
			}
			if c.Calls[i].Kind == "retry" {
				c.Calls[i].Plan.Fail = ""
				c.Calls[i].Plan.NoCtx = rapid.IntRange(0, 2).Draw(rt, fmt.Sprintf("retrynoctx%d", i)) == 0
			}
		}
		c.Fault = genFault(rt, "f1", npre+1)
		if c.Fault.Kind == "blackhole" && rapid.IntRange(0, 2).Draw(rt, "keepbh") != 0 {
			c.Fault.Kind = "rst"
		}
		c.Refused = rapid.SampledFrom([]int{0, 0, 1, 1, 2, 3, 5, 10, 30, 80, 90}).Draw(rt, "refused")
		c.BackoffMinMs = rapid.IntRange(1, 20).Draw(rt, "bmin")
		c.BackoffMaxMs = rapid.IntRange(5, 100).Draw(rt, "bmax")
		if c.BackoffMaxMs < c.BackoffMinMs {
			c.BackoffMaxMs = c.BackoffMinMs
		}
		if c.Refused > 10 {
			c.BackoffMinMs, c.BackoffMaxMs = 1, 5
		}
		if c.Refused > 0 {
			c.RefuseHow = rapid.SampledFrom([]string{"", "", "http503", "http200"}).Draw(rt, "refusehow")
		}
		c.WithErrors = rapid.Bool().Draw(rt, "witherrors")
		c.NoReconnect = rapid.IntRange(0, 5).Draw(rt, "noreconnect") == 0
		if c.NoReconnect {
			c.Refused = 0
		}
		if !c.NoReconnect && rapid.IntRange(0, 4).Draw(rt, "double") == 0 {
			c.Fault2 = genFault(rt, "f2", 2)
			if c.Fault2.Kind == "blackhole" {
				c.Fault2.Kind = "fin"
			}
		}
		run(rt, c)
	})
}

func checkBackoff(mn, mx time.Duration, attempt int) *Violation {
	for i := 0; i < 3; i++ { // the function adds random jitter: sample it
		d := jsonrpc.VerifBackoffNext(mn, mx, attempt)
		lower := math.Min(float64(mn)*math.Pow(1.5, float64(attempt)), float64(mx))
		key := "backoff-out-of-range"
		if attempt > 60 {
			key = "backoff-overflow-busyloop"
		}
		if d <= 0 || d > mx {
			return violf(key, "backoff(min %v, max %v).next(%d) = %v, outside (0, max]", mn, mx, attempt, d)
		}
		if float64(d) < 0.999*lower-1 {
			return violf(key, "backoff(min %v, max %v).next(%d) = %v, below min(min*1.5^n, max) = %v", mn, mx, attempt, d, time.Duration(lower))
		}
	}
	return nil
}

func TestC05Replay(t *testing.T) {
	Replay(t, "C05", 5, func(raw json.RawMessage) *Violation {
		var probe map[string]json.RawMessage
		_ = json.Unmarshal(raw, &probe)
		if _, ok := probe["attempt"]; ok {
			var x struct {
				Min     int64 `json:"backoff_min_ns"`
				Max     int64 `json:"backoff_max_ns"`
				Attempt int   `json:"attempt"`
			}
			_ = json.Unmarshal(raw, &x)
			return checkBackoff(time.Duration(x.Min), time.Duration(x.Max), x.Attempt)
		}
		c, ok := parseFsCase(raw)
		if !ok {
			return nil
		}
		v, _ := runC05(c)
		return v
	})
}

var _ = fmt.Sprint
