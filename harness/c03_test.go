package harness

// C03 - no call hangs or gets a foreign result, whatever connection fault occurs.
//
// Generator: workload of token calls x fault (direction x frame x position x
// kind) from the proxy's grid x timing class of further calls (before the fault
// is noticed, inside the reconnect window - the client is held there by the dial
// wrapper -, after heal) x optional second fault on the re-established
// connection. Oracle: every call returns; a returned value is f(own token); a
// call is lost iff it is outstanding, no handler runs for it and three later
// probes round-tripped; after the closer every call has returned.

import (
	"encoding/json"
	"fmt"
	"strings"
	"sync"
	"sync/atomic"
	"testing"
	"time"

	"pgregory.net/rapid"
)

var faultDirs = []string{"c2s", "s2c"}
var faultPos = []string{"before", "header", "mid", "last", "after"}
var faultKinds = []string{"fin", "rst", "blackhole", "wsclose"}

func c03Workload(name string) []fsCall {
	switch name {
	case "w1": // gated call in flight, a multi-frame response, an immediate call
		return []fsCall{
			{Kind: "call", Plan: Plan{Gate: true, WatchCtx: true}, When: "pre"},
			{Kind: "call", Plan: Plan{Size: 9000}, When: "pre"},
			{Kind: "call", Plan: Plan{}, When: "pre"},
			{Kind: "call", Plan: Plan{}, When: "noticed"},
			{Kind: "call", Plan: Plan{}, When: "window"},
			{Kind: "call", Plan: Plan{}, When: "healed"},
		}
	case "w2": // subscription + calls
		return []fsCall{
			{Kind: "sub", Plan: Plan{N: 3, Early: 1}, When: "pre"},
			{Kind: "call", Plan: Plan{Gate: true}, When: "pre"},
			{Kind: "call", Plan: Plan{Size: 20000}, When: "pre"},
			{Kind: "call", Plan: Plan{}, When: "window"},
			{Kind: "sub", Plan: Plan{N: 2}, When: "window"},
			{Kind: "retry", Plan: Plan{}, When: "window"},
			{Kind: "call", Plan: Plan{}, When: "healed"},
		}
	case "w3": // only immediate calls, several in the window
		return []fsCall{
			{Kind: "call", Plan: Plan{}, When: "pre"},
			{Kind: "notify", Plan: Plan{}, When: "pre"},
			{Kind: "call", Plan: Plan{Size: 5000}, When: "pre"},
			{Kind: "call", Plan: Plan{}, When: "noticed"},
			{Kind: "call", Plan: Plan{}, When: "noticed"},
			{Kind: "call", Plan: Plan{}, When: "window"},
			{Kind: "noctx", Plan: Plan{}, When: "window"},
			{Kind: "notify", Plan: Plan{}, When: "window"},
		}
	default: // w4: long gated calls with failing handlers
		return []fsCall{
			{Kind: "call", Plan: Plan{Gate: true, Fail: "late failure"}, When: "pre"},
			{Kind: "call", Plan: Plan{Gate: true, Size: 12000}, When: "pre"},
			{Kind: "call", Plan: Plan{Fail: "fast failure"}, When: "pre"},
			{Kind: "call", Plan: Plan{Gate: true}, When: "window"},
			{Kind: "call", Plan: Plan{}, When: "healed"},
		}
	}
}

func genFault(t *rapid.T, label string, maxFrame int) *Fault {
	return &Fault{
		Dir: rapid.SampledFrom(faultDirs).Draw(t, label+"_dir"), Frame: rapid.IntRange(0, maxFrame).Draw(t, label+"_frame"),
		Pos: rapid.SampledFrom(faultPos).Draw(t, label+"_pos"), Kind: rapid.SampledFrom([]string{"fin", "fin", "rst", "rst", "blackhole", "wsclose"}).Draw(t, label+"_kind"),
	}
}

func genFsCalls(t *rapid.T, kinds []string, whens []string, minN, maxN int) []fsCall {
	n := rapid.IntRange(minN, maxN).Draw(t, "ncalls")
	var calls []fsCall
	for i := 0; i < n; i++ {
		l := fmt.Sprintf("c%d_", i)
		fc := fsCall{Kind: rapid.SampledFrom(kinds).Draw(t, l+"kind"), When: rapid.SampledFrom(whens).Draw(t, l+"when")}
		switch fc.Kind {
		case "sub":
			fc.Plan = Plan{N: rapid.IntRange(0, 5).Draw(t, l+"n"), Early: rapid.IntRange(0, 2).Draw(t, l+"early")}
		default:
			fc.Plan = Plan{Gate: rapid.IntRange(0, 2).Draw(t, l+"gate") == 0, Size: rapid.SampledFrom([]int{0, 0, 0, 3000, 9000, 30000}).Draw(t, l+"size")}
			if fc.Kind == "notify" {
				fc.Plan.Size = 0
			}
			if fc.Kind == "call" {
				fc.Plan.TagFalse = rapid.IntRange(0, 3).Draw(t, l+"tagfalse") == 0
			}
			if fc.Plan.Gate {
				fc.Plan.WatchCtx = rapid.Bool().Draw(t, l+"watch")
			}
			if rapid.IntRange(0, 5).Draw(t, l+"fail") == 0 {
				fc.Plan.Fail = "handler failure"
			}
		}
		calls = append(calls, fc)
	}
	return calls
}

func fsClasses(c fsCase) (bool, []string) {
	cl := []string{}
	nt := false
	if c.Fault != nil {
		cl = append(cl, "kind_"+c.Fault.Kind, "dir_"+c.Fault.Dir, "pos_"+c.Fault.Pos)
		if c.NoClientPings && c.Fault.Kind == "blackhole" {
			cl = append(cl, "blackhole_without_client_pings")
			nt = true
		}
		if c.Fault.Pos == "header" || c.Fault.Pos == "mid" || c.Fault.Pos == "last" {
			cl = append(cl, "fault_inside_frame")
			nt = true
		}
	} else {
		cl = append(cl, "no_fault")
	}
	if c.Fault2 != nil {
		cl = append(cl, "double_fault")
		nt = true
	}
	if c.hasWhen("window") {
		cl = append(cl, "call_in_window")
		nt = true
	}
	if c.hasWhen("noticed") {
		cl = append(cl, "call_before_noticed")
	}
	if c.Refused > 0 {
		cl = append(cl, "refused_redials")
		nt = true
	}
	if c.NoReconnect {
		cl = append(cl, "no_reconnect")
	}
	for _, fc := range c.Calls {
		cl = append(cl, "has_"+fc.Kind)
	}
	return nt, cl
}

func runC03(c fsCase) (*Violation, *fsOutcome) {
	o := runFaultSim(c)
	defer o.finish()
	if o.Infra != "" {
		return nil, o
	}
	if v := o.commonFaultOracle(); v != nil {
		if (v.Key == "window-call-lost" || v.Key == "call-lost") && len(o.Lost) > 0 && o.Rig.W.Started(o.Lost[0].Tok) == 0 &&
			c.Fault != nil && c.Fault.Dir == "s2c" && (c.Fault.Pos == "mid" || c.Fault.Pos == "last") {
			// a frame cut inside its payload takes the client's read-error path
			v.Key = "readerror-window-hang"
		}
		return v, o
	}
	return nil, o
}

const c03Rule = "workloads of 2-8 token calls {gated unary, immediate unary, multi-frame result, subscription, notification, retry-tagged} x fault {FIN, RST, WebSocket close frame, blackhole (against clients with and without pings of their own)} x direction x frame index x position {before, inside header, mid-payload, before last byte, after} x further calls issued right after the fault, inside the reconnect window (client held there by the dial wrapper) and after heal x optional second fault on the new connection. Grid: fixed workloads x dir x frame x pos x kind (sampled in quick, complete in thorough). Non-trivial = fault strictly inside a frame, or a call issued inside the reconnect window, or a double fault; distinct by descriptor hash"

func TestC03(t *testing.T) {
	rec := NewRec("C03", c03Rule)
	defer rec.Finish(t)
	rec.EnableJournal()
	rec.RequireClass("kind_wsclose", "fault_inside_frame", "call_in_window", "double_fault", "kind_fin", "kind_rst", "kind_blackhole", "dir_c2s", "dir_s2c", "window_reached")
	sh, nsh := shard()
	if sh == 0 {
		rec.RequireClass("flapping_under_load") // that sub-check runs in the first shard only
	}

	run := func(ft failer, c fsCase) {
		nt, cl := fsClasses(c)
		rec.Run(ft, c, nt, cl, func() *Violation {
			v, o := runC03(c)
			if v != nil && v.Key != "foreign-result" && v.Key != "corrupt-result" {
				// verdicts that involve a bound are confirmed by a second run
				if v2, _ := runC03(c); v2 == nil {
					rec.Class("unconfirmed", 1)
					return nil
				}
			}
			if o.Infra != "" {
				rec.Class("infra_trouble", 1)
			}
			if o.WindowReached {
				rec.Class("window_reached", 1)
			}
			if o.FaultFired {
				rec.Class("fault_fired_at_frame", 1)
			}
			if len(o.Undecided) > 0 {
				rec.Class("undecided", 1)
			}
			if o.HealedOK {
				rec.Class("healed", 1)
			}
			return v
		})
	}

	rec.Regress(t, func(raw json.RawMessage) *Violation {
		var c fsCase
		if json.Unmarshal(raw, &c) != nil {
			return nil
		}
		v, _ := runC03(c)
		return v
	})
	t.Run("flapping", func(t *testing.T) {
		if sh != 0 {
			return
		}
		for _, c := range []c03Flap{{Callers: 8, Flap: 3000, ForMs: scale(1500, 8000)}, {Callers: 3, Flap: 1000, ForMs: scale(800, 4000), BigEvery: 3}, {Callers: 12, Flap: 7000, ForMs: scale(1000, 6000), Subs: 3, BigEvery: 5},
			{Callers: 8, Flap: 4000, ForMs: scale(1500, 8000), MidFrame: true}, {Callers: 4, Flap: 2000, ForMs: scale(1000, 5000), MidFrame: true, BigEvery: 4}} {
			c := c
			rec.Run(t, c, true, []string{"flapping_under_load"}, func() *Violation {
				v := runC03Flap(c)
				if v != nil && v.Key != "foreign-result" && v.Key != "corrupt-result" {
					if runC03Flap(c) == nil {
						rec.Class("unconfirmed", 1)
						return nil
					}
				}
				return v
			})
		}
	})
	t.Run("grid", func(t *testing.T) {
		workloads := []string{"w1"}
		maxFrame := 3
		stride := 5 // quick: every 5th grid point, offset by the seed
		if thorough() {
			workloads = []string{"w1", "w2", "w3", "w4"}
			maxFrame = 6
			stride = 1
		}
		k := 0
		off := envInt("VERIF_SEED", 1)
		for _, w := range workloads {
			for _, dir := range faultDirs {
				for fr := 0; fr <= maxFrame; fr++ {
					for _, pos := range faultPos {
						for _, kind := range faultKinds {
							k++
							if (k+off)%stride != 0 || k%nsh != sh {
								continue
							}
							run(t, fsCase{Calls: c03Workload(w), Fault: &Fault{Dir: dir, Frame: fr, Pos: pos, Kind: kind}})
						}
					}
				}
			}
		}
		// silent stalls noticed by the read deadline alone: a client that sends no pings of its own
		if sh == 0 {
			for i, pos := range []string{"before", "mid", "after"} {
				run(t, fsCase{Calls: c03Workload("w1"), NoClientPings: true, Fault: &Fault{Dir: faultDirs[i%2], Frame: 1 + i%2, Pos: pos, Kind: "blackhole"}})
			}
		}
		// double faults: second fault on the re-established connection
		for i, pos := range faultPos {
			if !thorough() && i%2 == 1 {
				continue
			}
			for j, kind := range []string{"fin", "rst"} {
				if (i+j)%nsh != sh && nsh > 1 {
					continue
				}
				run(t, fsCase{Calls: c03Workload("w3"), Fault: &Fault{Dir: "s2c", Frame: 1, Pos: "mid", Kind: kind}, Fault2: &Fault{Dir: faultDirs[(i+j)%2], Frame: 0, Pos: pos, Kind: kind}})
			}
		}
		rec.Exhaustive(false)
	})

	rec.Rapid(t, "rapid", func(rt *rapid.T) {
		c := fsCase{Calls: genFsCalls(rt, []string{"call", "call", "call", "sub", "notify", "retry", "noctx"}, []string{"pre", "pre", "pre", "noticed", "window", "window", "healed"}, 2, 8)}
		npre := 0
		for _, fc := range c.Calls {
			if fc.When == "pre" {
				npre++
			}
		}
		c.Fault = genFault(rt, "f1", npre+1)
		if c.Fault.Kind == "blackhole" {
			c.NoClientPings = rapid.Bool().Draw(rt, "noclientpings")
		}
		if rapid.IntRange(0, 6).Draw(rt, "noreconnect") == 0 {
			c.NoReconnect = true
		}
		if rapid.IntRange(0, 4).Draw(rt, "double") == 0 {
			c.Fault2 = genFault(rt, "f2", 3)
			if c.Fault2.Kind == "blackhole" {
				c.Fault2.Kind = "rst"
			}
		}
		nr := rapid.IntRange(0, 2).Draw(rt, "nrules")
		for i := 0; i < nr; i++ {
			c.Rules = append(c.Rules, &HookRule{Point: rapid.SampledFrom([]string{"reconnect.begin", "req.accepted", "frame.read", "closechans.begin", "resp.found"}).Draw(rt, fmt.Sprintf("pt%d", i)),
				Occ: rapid.IntRange(0, 3).Draw(rt, fmt.Sprintf("occ%d", i)), Side: "client", DelayU: rapid.SampledFrom([]int{100, 1000, 5000}).Draw(rt, fmt.Sprintf("d%d", i))})
		}
		run(rt, c)
	})
}

// ---- many faults in quick succession under load ---------------------------------------------------------------

// c03Flap: callers keep issuing calls while the connection is reset every few milliseconds, so that calls land at
// every instant of the loss / redial / re-established cycle many times over.
type c03Flap struct {
	Callers  int  `json:"callers"`
	Flap     int  `json:"flap_every_us"` // a reset every so many microseconds
	ForMs    int  `json:"for_ms"`
	Subs     int  `json:"subs,omitempty"`      // callers that subscribe instead (and drain the channel)
	BigEvery int  `json:"big_every,omitempty"` // every n-th call carries a 20 kB request
	MidFrame bool `json:"mid_frame,omitempty"` // every second reset hits the middle of a server-to-client frame (results are 3 kB then)
}

func runC03Flap(c c03Flap) *Violation {
	rig, err := NewRig(RigOpts{BackoffMin: time.Millisecond, BackoffMax: 3 * time.Millisecond})
	if err != nil {
		return nil
	}
	defer rig.Close()
	cl, err := rig.NewClient("c")
	if err != nil {
		return nil
	}
	rig.Proxy.KeepLog(false)
	stop := make(chan struct{})
	var mu sync.Mutex
	current := map[int]*Pending{}
	var foreign *Violation
	var issued, redials int64
	var wg sync.WaitGroup
	for g := 0; g < c.Callers; g++ {
		wg.Add(1)
		go func(g int) {
			defer wg.Done()
			for n := 0; ; n++ {
				select {
				case <-stop:
					return
				default:
				}
				kind, plan := "call", Plan{}
				if c.MidFrame {
					plan.Size = 3000
				}
				if g < c.Subs {
					kind, plan = "sub", Plan{N: 3, Early: 1}
				} else if c.BigEvery > 0 && n%c.BigEvery == 0 {
					plan.Junk = strings.Repeat("j", 20000)
				}
				p := rig.Go(cl, kind, rig.Tok(fmt.Sprintf("fl%d", g)), plan)
				atomic.AddInt64(&issued, 1)
				mu.Lock()
				current[g] = p
				mu.Unlock()
				<-p.Done // a call that never returns keeps its caller here: that is what the check looks for afterwards
				if p.Err == nil {
					if kind == "sub" {
						for range p.Ch {
						}
					} else if v := p.CheckOwn(); v != nil {
						mu.Lock()
						foreign = v
						mu.Unlock()
					}
				}
			}
		}(g)
	}
	end := time.Now().Add(time.Duration(c.ForMs) * time.Millisecond)
	for n := 0; time.Now().Before(end); n++ {
		time.Sleep(time.Duration(c.Flap) * time.Microsecond)
		if c.MidFrame && n%2 == 1 {
			// reset the newest connection in the middle of one of the next frames the server sends on it
			fc := rig.Proxy.FrameCounts()
			if idx := len(fc) - 1; idx >= 0 {
				rig.Proxy.ClearFaults()
				rig.Proxy.AddFault(&Fault{Conn: idx, Dir: "s2c", Frame: fc[idx]["s2c"] + 1 + n%3, Pos: "mid", Kind: "rst"})
				if rig.Proxy.WaitFault(time.Duration(c.Flap)*time.Microsecond) != nil {
					atomic.AddInt64(&redials, 1)
					continue
				}
				rig.Proxy.ClearFaults()
			}
		}
		rig.Proxy.CutAll("rst")
		atomic.AddInt64(&redials, 1)
	}
	rig.Proxy.ClearFaults()
	// the path is left alone now: the client must come back, and every caller's call must have returned
	healed := false
	var last error
	for deadline := time.Now().Add(6 * time.Second); time.Now().Before(deadline); time.Sleep(5 * time.Millisecond) {
		if last = rig.Probe(cl, time.Second); last == nil {
			healed = true
			break
		}
	}
	close(stop)
	if !healed {
		return violf("never-healed", "%d callers kept calling while the connection was reset every %d us for %d ms (%d calls, %d resets); afterwards the path was left alone, but no probe succeeded within 6s (last: %v)", c.Callers, c.Flap, c.ForMs, atomic.LoadInt64(&issued), atomic.LoadInt64(&redials), last)
	}
	for i := 0; i < 2; i++ {
		if err := rig.Probe(cl, 3*time.Second); err != nil {
			return violf("never-healed", "a probe failed after the client had come back: %v", err)
		}
	}
	if !bounded(3*time.Second, wg.Wait) {
		mu.Lock()
		defer mu.Unlock()
		for g, p := range current {
			if !p.Returned() && rig.W.Running(p.Tok) == false {
				return violf("call-lost", "caller %d's call %s (%s) never returned although three later probes round-tripped: no handler is running for it (%d callers, a reset every %d us for %d ms, %d calls, %d resets)", g, p.Tok, p.Kind, c.Callers, c.Flap, c.ForMs, atomic.LoadInt64(&issued), atomic.LoadInt64(&redials))
			}
		}
	}
	mu.Lock()
	defer mu.Unlock()
	return foreign
}

func TestC03Replay(t *testing.T) {
	Replay(t, "C03", 10, func(raw json.RawMessage) *Violation {
		var probe map[string]json.RawMessage
		_ = json.Unmarshal(raw, &probe)
		if _, ok := probe["flap_every_us"]; ok {
			var c c03Flap
			_ = json.Unmarshal(raw, &c)
			return runC03Flap(c)
		}
		c, ok := parseFsCase(raw)
		if !ok {
			return nil
		}
		v, _ := runC03(c)
		return v
	})
}
