package harness

// C02 - each concurrent call completes exactly once and with its own response.
//
// Generator: N concurrent callers (barrier start) on one client, a completion
// permutation enforced through per-token gates (strict or burst), response
// sizes from a few bytes to several write buffers, ungated callers whose
// responses race the in-flight registration, and a delay vector over the
// library's yield points. Oracle: every caller returns f(own token) with a nil
// error, its handler ran exactly once, and no call is lost (clock-free rule).

import (
	"encoding/json"
	"fmt"
	"math"
	"sync"
	"testing"
	"time"

	"pgregory.net/rapid"
)

type c02Caller struct {
	Gate bool   `json:"gate"`
	Size int    `json:"size"`
	Kind string `json:"kind,omitempty"` // call (default) | noctx | retry : three client functions with their own descriptors, one server method; notify : a notification whose handler is gated like the others
	Junk int    `json:"junk,omitempty"` // bytes of ignored request payload
}

type c02Case struct {
	Transport string      `json:"transport"` // ws | http
	Callers   []c02Caller `json:"callers"`
	Perm      []int       `json:"perm"`   // release order over the gated callers' indexes
	Strict    bool        `json:"strict"` // wait for each released caller to return before releasing the next
	// Poison: before the load, every client function is called once with arguments that cannot be marshalled (NaN):
	// those calls fail locally, and must leave nothing behind that affects the calls proper
	Poison bool        `json:"poison,omitempty"`
	Rules  []*HookRule `json:"rules,omitempty"`
}

func runC02(c c02Case) (*Violation, string) {
	rig, err := NewRig(RigOpts{})
	if err != nil {
		return nil, "rig: " + err.Error()
	}
	defer rig.Close()
	var cl *RigClient
	if c.Transport == "http" {
		cl, err = rig.NewHTTPClient("h")
	} else {
		cl, err = rig.NewClient("c")
	}
	if err != nil {
		return nil, "client: " + err.Error()
	}
	hooks.Reset(c.Rules...)
	defer hooks.Off()
	if c.Poison {
		for _, kind := range []string{"call", "retry", "noctx", "notify", "call"} {
			p := rig.Go(cl, kind, rig.Tok("poison"), Plan{Bad: math.NaN()})
			select {
			case <-p.Done:
			case <-time.After(3 * time.Second):
				return violf("call-hangs", "a %s whose arguments cannot be marshalled did not return", kind), ""
			}
			if p.Err == nil {
				return violf("unmarshalable-arguments-accepted", "a %s with a NaN argument returned without an error", kind), ""
			}
		}
	}

	calls := make([]*Pending, len(c.Callers))
	var start sync.WaitGroup
	start.Add(1)
	var launched sync.WaitGroup
	for i, cc := range c.Callers {
		i, cc := i, cc
		launched.Add(1)
		tok := rig.Tok(fmt.Sprintf("c%d", i))
		go func() {
			start.Wait()
			kind := cc.Kind
			if kind == "" {
				kind = "call"
			}
			calls[i] = rig.Go(cl, kind, tok, Plan{Gate: cc.Gate, Size: cc.Size, Junk: padFor(tok, cc.Junk)})
			launched.Done()
		}()
	}
	start.Done()
	launched.Wait()

	// wait for the gated handlers to be running (a request that never arrives is caught by the lost rule below)
	for i, cc := range c.Callers {
		if cc.Gate {
			if !rig.W.WaitStarted(calls[i].Tok, 3*time.Second) && !calls[i].Returned() && len(c.Callers) > 100 {
				// the handlers of the other callers are blocked on purpose: a request that is only delivered once some of
				// them have finished makes completion order depend on issue order
				return violf("request-held-back", "%d callers issued their calls together (%s); after 3s the call of caller %d had neither reached its handler nor returned, while %d handlers were running: its delivery waits for other calls to finish", len(c.Callers), c.Transport, i, rig.W.RunningCount()), ""
			}
		}
	}
	for _, idx := range c.Perm {
		if idx < 0 || idx >= len(calls) || !c.Callers[idx].Gate {
			continue
		}
		rig.W.Release(calls[idx].Tok)
		if c.Strict {
			lost, undecided := rig.AwaitAll(cl, []*Pending{calls[idx]}, 6*time.Second)
			if len(lost) > 0 {
				return violf("call-lost", "caller %d (%s) never returned although its handler finished and 3 later probes round-tripped; hook history: %v", idx, calls[idx].Tok, hooks.History(30)), ""
			}
			if len(undecided) > 0 {
				// its own handler was released, yet the call is stuck while other handlers are still gated: the server
				// must finish calls in whatever order their handlers finish
				return violf("call-hangs", "caller %d (%s, handler started %d finished %d) was released first but had not returned after 6s while other handlers were still blocked; hook history: %v",
					idx, calls[idx].Tok, rig.W.Started(calls[idx].Tok), rig.W.Finished(calls[idx].Tok), hooks.History(20)), ""
			}
		}
	}
	for i, cc := range c.Callers { // anything not in Perm
		if cc.Gate {
			rig.W.Release(calls[i].Tok)
		}
	}
	lost, undecided := rig.AwaitAll(cl, calls, 10*time.Second)
	if len(lost) > 0 {
		return violf("call-lost", "%d caller(s) never returned (first: %s, handler started %d finished %d) although later probes round-tripped; hook history: %v",
			len(lost), lost[0].Tok, rig.W.Started(lost[0].Tok), rig.W.Finished(lost[0].Tok), hooks.History(30)), ""
	}
	if len(undecided) > 0 {
		// no fault was injected: a connection on which calls (and the probes) stay outstanding for 10 s is itself
		// a violation of "every call returns"; bound-based, so the caller confirms it with a second run
		u := undecided[0]
		return violf("call-hangs", "%d of %d calls still outstanding 10s after all handlers were released on a healthy connection (first: %s, handler started %d finished %d); hook history: %v",
			len(undecided), len(calls), u.Tok, rig.W.Started(u.Tok), rig.W.Finished(u.Tok), hooks.History(20)), ""
	}
	for i, p := range calls {
		if p.Kind == "notify" {
			deadline := time.Now().Add(2 * time.Second)
			for rig.W.Finished(p.Tok) < 1 && time.Now().Before(deadline) {
				time.Sleep(time.Millisecond)
			}
		}
		if p.Err != nil {
			return violf("call-error", "caller %d (%s) got error %v on a healthy connection", i, p.Tok, p.Err), ""
		}
		if v := p.CheckOwn(); v != nil {
			return v, ""
		}
		if n := rig.W.Started(p.Tok); n != 1 {
			return violf("execution-count", "handler for %s ran %d times", p.Tok, n), ""
		}
	}
	return nil, ""
}

func genC02(t *rapid.T) c02Case {
	c := c02Case{Transport: "ws", Strict: rapid.Bool().Draw(t, "strict"), Poison: rapid.IntRange(0, 3).Draw(t, "poison") == 0}
	if rapid.IntRange(0, 7).Draw(t, "http") == 0 {
		c.Transport = "http"
	}
	n := rapid.IntRange(1, 12).Draw(t, "n")
	var gated []int
	for i := 0; i < n; i++ {
		cc := c02Caller{Gate: rapid.IntRange(0, 3).Draw(t, fmt.Sprintf("gate%d", i)) != 0}
		cc.Size = rapid.SampledFrom([]int{0, 0, 10, 1000, 4000, 4096, 5000, 13000, 40000}).Draw(t, fmt.Sprintf("size%d", i))
		cc.Kind = rapid.SampledFrom([]string{"call", "call", "call", "noctx", "retry", "notify"}).Draw(t, fmt.Sprintf("kind%d", i))
		if cc.Kind == "notify" {
			cc.Size = 0
		}
		cc.Junk = rapid.SampledFrom([]int{0, 0, 200, 5000, 30000}).Draw(t, fmt.Sprintf("junk%d", i))
		c.Callers = append(c.Callers, cc)
		if cc.Gate {
			gated = append(gated, i)
		}
	}
	if len(gated) > 0 {
		c.Perm = rapid.Permutation(gated).Draw(t, "perm")
	}
	if c.Transport == "ws" {
		nr := rapid.IntRange(0, 4).Draw(t, "nrules")
		pts := []string{"req.accepted", "inflight.registered", "resp.found", "resp.delivered", "write.locked", "frame.read", "call.dispatch"}
		for i := 0; i < nr; i++ {
			c.Rules = append(c.Rules, &HookRule{
				Point: rapid.SampledFrom(pts).Draw(t, fmt.Sprintf("pt%d", i)), Occ: rapid.IntRange(0, n).Draw(t, fmt.Sprintf("occ%d", i)),
				Side:   rapid.SampledFrom([]string{"", "client", "server"}).Draw(t, fmt.Sprintf("side%d", i)),
				DelayU: rapid.SampledFrom([]int{50, 200, 1000, 3000}).Draw(t, fmt.Sprintf("d%d", i)),
			})
		}
	}
	return c
}

func c02NT(c c02Case) (bool, []string) {
	cl := []string{"tr_" + c.Transport, fmt.Sprintf("n_%d", len(c.Callers))}
	reordered := false
	for i := 1; i < len(c.Perm); i++ {
		if c.Perm[i] < c.Perm[i-1] {
			reordered = true
		}
	}
	if reordered {
		cl = append(cl, "reordered")
	}
	if c.Strict {
		cl = append(cl, "strict")
	}
	if c.Poison {
		cl = append(cl, "after_locally_failed_calls")
	}
	if len(c.Rules) > 0 {
		cl = append(cl, "with_delays")
	}
	ungated := false
	for _, cc := range c.Callers {
		if !cc.Gate {
			ungated = true
		}
		if cc.Size > 4096 {
			cl = append(cl, "multi_frame_response")
		}
		if cc.Kind != "" && cc.Kind != "call" {
			cl = append(cl, "several_client_functions")
		}
	}
	if ungated {
		cl = append(cl, "has_ungated")
	}
	return len(c.Callers) >= 2 && (reordered || ungated), cl
}

func permutations(n int) [][]int {
	if n == 0 {
		return [][]int{{}}
	}
	var out [][]int
	for _, p := range permutations(n - 1) {
		for i := 0; i <= len(p); i++ {
			q := append(append(append([]int{}, p[:i]...), n-1), p[i:]...)
			out = append(out, q)
		}
	}
	return out
}

const c02Rule = "N in 1..12 (two grid cases: 130) concurrent callers (barrier start) on one ws client (1/8 of cases: http client); completion order forced by per-token handler gates, strict or burst; response sizes 0..40000 bytes (multi-frame above 4096); ungated callers mixed in; 0-4 delays of 50us-3ms at yield points (request accepted, in-flight registered, response found/delivered, inside write lock, frame read, call dispatch). Grid: every completion permutation for N<=4 (quick) / N<=5 (thorough), each with every yield point delayed in turn (thorough). optionally every client function is first called once with arguments that cannot be marshalled (NaN; those calls must fail locally and leave nothing behind). Non-trivial = N>=2 and (completion order differs from issue order or ungated callers race); distinct by descriptor hash"

func TestC02(t *testing.T) {
	rec := NewRec("C02", c02Rule)
	defer rec.Finish(t)
	rec.EnableJournal()
	rec.RequireClass("after_locally_failed_calls", "several_client_functions", "reordered", "strict", "with_delays", "multi_frame_response", "has_ungated", "tr_http")
	sh, nsh := shard()

	run := func(ft failer, c c02Case) {
		nt, cl := c02NT(c)
		rec.Run(ft, c, nt, cl, func() *Violation {
			v, inc := runC02(c)
			if inc != "" {
				rec.Class("undecided", 1)
			}
			if v != nil && v.Key == "call-hangs" {
				if v2, _ := runC02(c); v2 == nil {
					rec.Class("unconfirmed", 1)
					return nil
				}
			}
			return v
		})
	}
	t.Run("permutations", func(t *testing.T) {
		maxN := scale(4, 5)
		k := 0
		for n := 1; n <= maxN; n++ {
			for _, perm := range permutations(n) {
				k++
				if k%nsh != sh {
					continue
				}
				callers := make([]c02Caller, n)
				for i := range callers {
					callers[i] = c02Caller{Gate: true, Size: []int{0, 5000, 100}[i%3], Kind: []string{"call", "noctx", "retry", "notify"}[(i+k)%4], Junk: (i % 2) * 3000}
				}
				run(t, c02Case{Transport: "ws", Callers: callers, Perm: perm, Strict: k%2 == 0, Poison: k%3 == 0})
				if thorough() {
					for _, pt := range []string{"req.accepted", "inflight.registered", "resp.found", "resp.delivered", "write.locked", "frame.read"} {
						run(t, c02Case{Transport: "ws", Callers: callers, Perm: perm, Strict: k%2 == 1, Rules: []*HookRule{{Point: pt, Occ: 0, DelayU: 300}}})
					}
				}
			}
		}
		if sh == 0 {
			// many more callers than any per-host connection allowance, finished by the server in the reverse of the order
			// in which they were issued
			for _, tr := range []string{"http", "ws"} {
				n := 130
				callers := make([]c02Caller, n)
				perm := make([]int, n)
				for i := range callers {
					callers[i] = c02Caller{Gate: true, Kind: "call"}
					perm[i] = n - 1 - i
				}
				run(t, c02Case{Transport: tr, Callers: callers, Perm: perm, Strict: false})
			}
		}
		rec.Exhaustive(false)
	})
	rec.Rapid(t, "rapid", func(rt *rapid.T) { run(rt, genC02(rt)) })
}

func TestC02Replay(t *testing.T) {
	Replay(t, "C02", 30, func(raw json.RawMessage) *Violation {
		var c c02Case
		if err := json.Unmarshal(raw, &c); err != nil {
			return nil
		}
		v, _ := runC02(c)
		return v
	})
}
