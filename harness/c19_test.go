package harness

// C19 - permission checks: a method runs iff the caller holds its permission.
//
// Oracle: a permission model written from the statement (runs iff required is a
// member of (attached ? callerSet : defaults)), per-method invocation counters,
// and for the HTTP auth handler a model of "which token is verified, what is
// attached, when is 401 returned and next not invoked".

import (
	"context"
	"encoding/json"
	"errors"
	"fmt"
	"net/http"
	"net/http/httptest"
	"net/url"
	"strings"
	"sync"
	"sync/atomic"
	"testing"
	"time"

	jsonrpc "github.com/filecoin-project/go-jsonrpc"
	"github.com/filecoin-project/go-jsonrpc/auth"
	"pgregory.net/rapid"
)

var c19Universe = []auth.Permission{"read", "write", "admin"}

type c19Impl struct {
	calls [6]int64
	fail  bool
}

var errC19Impl = errors.New("impl-error")

func (i *c19Impl) ret() error {
	if i.fail {
		return errC19Impl
	}
	return nil
}
func (i *c19Impl) ReadE(ctx context.Context) error  { atomic.AddInt64(&i.calls[0], 1); return i.ret() }
func (i *c19Impl) WriteE(ctx context.Context) error { atomic.AddInt64(&i.calls[1], 1); return i.ret() }
func (i *c19Impl) AdminE(ctx context.Context) error { atomic.AddInt64(&i.calls[2], 1); return i.ret() }
func (i *c19Impl) ReadV(ctx context.Context, x int) (int, error) {
	atomic.AddInt64(&i.calls[3], 1)
	return 2*x + 1, i.ret()
}
func (i *c19Impl) WriteV(ctx context.Context, x int) (int, error) {
	atomic.AddInt64(&i.calls[4], 1)
	return 2*x + 1, i.ret()
}
func (i *c19Impl) AdminV(ctx context.Context, x int) (int, error) {
	atomic.AddInt64(&i.calls[5], 1)
	return 2*x + 1, i.ret()
}

type c19Proxy struct {
	ReadE  func(ctx context.Context) error               `perm:"read"`
	WriteE func(ctx context.Context) error               `perm:"write"`
	AdminE func(ctx context.Context) error               `perm:"admin"`
	ReadV  func(ctx context.Context, x int) (int, error) `perm:"read"`
	WriteV func(ctx context.Context, x int) (int, error) `perm:"write"`
	AdminV func(ctx context.Context, x int) (int, error) `perm:"admin"`
}

// c19Case is one proxy call: sets are given as explicit lists (order and
// duplicates matter to an implementation, not to the model).
type c19Case struct {
	Caller   []string  `json:"caller"`        // attached set (only if Attached)
	Attached bool      `json:"attached"`      // permissions attached to ctx at all?
	NilSet   bool      `json:"nil_set"`       // attach a nil slice instead of an empty one
	Pre      *[]string `json:"pre,omitempty"` // a set attached earlier on the same context chain (only with Attached): the later one is in force
	Defaults []string  `json:"defaults"`
	Required int       `json:"required"` // index into universe
	Value    bool      `json:"value"`    // shape (value,error) vs error
	ImplFail bool      `json:"impl_fail"`
	X        int       `json:"x"`
}

func toPerms(s []string) []auth.Permission {
	out := make([]auth.Permission, 0, len(s))
	for _, x := range s {
		out = append(out, auth.Permission(x))
	}
	return out
}

func containsStr(s []string, x string) bool {
	for _, y := range s {
		if y == x {
			return true
		}
	}
	return false
}

func runC19Proxy(c c19Case) *Violation {
	impl := &c19Impl{fail: c.ImplFail}
	var px c19Proxy
	auth.PermissionedProxy(c19Universe, toPerms(c.Defaults), impl, &px)

	ctx := context.Background()
	if c.Attached && c.Pre != nil {
		ctx = auth.WithPerm(ctx, toPerms(*c.Pre))
	}
	if c.Attached {
		if c.NilSet && len(c.Caller) == 0 {
			ctx = auth.WithPerm(ctx, nil)
		} else {
			ctx = auth.WithPerm(ctx, toPerms(c.Caller))
		}
	}
	eff := c.Defaults
	if c.Attached {
		eff = c.Caller
	}
	req := string(c19Universe[c.Required])
	allowed := containsStr(eff, req)

	var err error
	var val int
	idx := c.Required
	if c.Value {
		idx += 3
		switch c.Required {
		case 0:
			val, err = px.ReadV(ctx, c.X)
		case 1:
			val, err = px.WriteV(ctx, c.X)
		default:
			val, err = px.AdminV(ctx, c.X)
		}
	} else {
		switch c.Required {
		case 0:
			err = px.ReadE(ctx)
		case 1:
			err = px.WriteE(ctx)
		default:
			err = px.AdminE(ctx)
		}
	}
	for i := range impl.calls {
		want := int64(0)
		if allowed && i == idx {
			want = 1
		}
		if impl.calls[i] != want {
			if want == 0 && i == idx {
				return violf("ran-without-permission", "method %d ran %d times although %q is not in the effective set %v", i, impl.calls[i], req, eff)
			}
			if want == 1 {
				return violf("not-run-with-permission", "method %d ran %d times although %q is in the effective set %v (attached=%v)", i, impl.calls[i], req, eff, c.Attached)
			}
			return violf("wrong-method-ran", "method %d ran %d times, expected only method %d", i, impl.calls[i], idx)
		}
	}
	if allowed {
		if c.ImplFail != (err != nil) || (err != nil && !errors.Is(err, errC19Impl)) {
			return violf("result-not-passed-through", "allowed call returned err=%v, implementation returned fail=%v", err, c.ImplFail)
		}
		if c.Value && val != 2*c.X+1 {
			return violf("result-not-passed-through", "allowed call returned %d, implementation returned %d", val, 2*c.X+1)
		}
		return nil
	}
	if err == nil {
		return violf("denied-without-error", "denied call returned a nil error")
	}
	if !strings.Contains(err.Error(), "permission") {
		return violf("denied-wrong-error", "denied call returned %q which is not a permission error", err)
	}
	if val != 0 {
		return violf("denied-nonzero-value", "denied call returned value %d", val)
	}
	return nil
}

// ---- HTTP auth handler ----------------------------------------------------

type c19HTTPCase struct {
	Header    *string   `json:"header"` // Authorization header value, nil = absent
	Query     *string   `json:"query"`  // ?token= value, nil = absent
	VerifyErr bool      `json:"verify_err"`
	Allow     []string  `json:"allow"`
	AllowNil  bool      `json:"allow_nil"`
	Method    string    `json:"method,omitempty"` // HTTP method ("" = POST): the handler's duties do not depend on it
	Pre       *[]string `json:"pre,omitempty"`    // the request reaches the handler already carrying this set (outer middleware); used for token-bearing requests only
}

func runC19HTTP(c c19HTTPCase) *Violation {
	var verified []string
	var nextRan int
	var nextAttached bool
	var nextPerms []string
	sentinel := auth.Permission("__default_sentinel__")
	h := &auth.Handler{
		Verify: func(ctx context.Context, token string) ([]auth.Permission, error) {
			verified = append(verified, token)
			if c.VerifyErr {
				return nil, errors.New("rejected")
			}
			if c.AllowNil && len(c.Allow) == 0 {
				return nil, nil
			}
			return toPerms(c.Allow), nil
		},
		Next: func(w http.ResponseWriter, r *http.Request) {
			nextRan++
			nextAttached = !auth.HasPerm(r.Context(), []auth.Permission{sentinel}, sentinel)
			for _, p := range c19Universe {
				if auth.HasPerm(r.Context(), []auth.Permission{sentinel}, p) {
					nextPerms = append(nextPerms, string(p))
				}
			}
			w.WriteHeader(204)
		},
	}
	target := "http://example.invalid/rpc/v0"
	if c.Query != nil {
		target += "?token=" + url.QueryEscape(*c.Query)
	}
	method := c.Method
	if method == "" {
		method = "POST"
	}
	req := httptest.NewRequest(method, target, strings.NewReader("{}"))
	req.Header.Set("Content-Type", "application/json")
	if c.Header != nil {
		req.Header["Authorization"] = []string{*c.Header}
	}
	if c.Pre != nil && (c.Header != nil && *c.Header != "" || c.Query != nil && *c.Query != "") {
		req = req.WithContext(auth.WithPerm(req.Context(), toPerms(*c.Pre)))
	}
	rw := httptest.NewRecorder()
	h.ServeHTTP(rw, req)

	// model
	hdr := ""
	if c.Header != nil {
		hdr = *c.Header
	}
	q := ""
	if c.Query != nil {
		q = *c.Query
	}
	type cand struct {
		malformed bool
		token     string
	}
	var cands []cand // acceptable interpretations where the statement is silent (well-formed header AND query token given)
	malformedHeader := false
	if hdr != "" {
		if strings.HasPrefix(hdr, "Bearer ") {
			cands = append(cands, cand{false, strings.TrimPrefix(hdr, "Bearer ")})
		} else {
			// a malformed token is answered with 401, whatever else the request carries
			cands = append(cands, cand{true, ""})
			malformedHeader = true
		}
	}
	if q != "" && !malformedHeader {
		// a query token is always well-formed (the prefix is implied)
		cands = append(cands, cand{false, q})
	}
	if len(cands) == 0 {
		// token-less: passed on, nothing attached, verifier not consulted
		if nextRan != 1 || rw.Code != 204 {
			return violf("tokenless-not-passed", "token-less request: next ran %d times, status %d", nextRan, rw.Code)
		}
		if nextAttached {
			return violf("tokenless-attached", "token-less request reached next with permissions attached %v", nextPerms)
		}
		if len(verified) != 0 {
			return violf("tokenless-verified", "token-less request consulted the verifier with %q", verified)
		}
		return nil
	}
	ok := false
	var why []string
	for _, cd := range cands {
		if cd.malformed {
			if rw.Code == 401 && nextRan == 0 && len(verified) == 0 {
				ok = true
			} else {
				why = append(why, fmt.Sprintf("malformed header: status %d nextRan %d verified %q", rw.Code, nextRan, verified))
			}
			continue
		}
		if len(verified) != 1 || verified[0] != cd.token {
			why = append(why, fmt.Sprintf("token %q: verifier saw %q", cd.token, verified))
			continue
		}
		if c.VerifyErr {
			if rw.Code == 401 && nextRan == 0 {
				ok = true
			} else {
				why = append(why, fmt.Sprintf("rejected token: status %d, next ran %d times", rw.Code, nextRan))
			}
			continue
		}
		if nextRan != 1 || rw.Code != 204 {
			why = append(why, fmt.Sprintf("accepted token: status %d, next ran %d times", rw.Code, nextRan))
			continue
		}
		if !nextAttached {
			why = append(why, "accepted token: nothing attached")
			continue
		}
		want := []string{}
		for _, p := range c19Universe {
			if containsStr(c.Allow, string(p)) {
				want = append(want, string(p))
			}
		}
		if fmt.Sprint(want) != fmt.Sprint(append([]string{}, nextPerms...)) {
			why = append(why, fmt.Sprintf("accepted token: attached %v, verifier returned %v", nextPerms, c.Allow))
			continue
		}
		ok = true
	}
	if !ok {
		key := "http-auth-mismatch"
		if nextRan > 0 && rw.Code == 401 {
			key = "next-after-401"
		}
		return violf(key, "header=%q query=%q: %s", hdr, q, strings.Join(why, "; "))
	}
	return nil
}

// ---- histories on one handler: the verifier's verdict may change between requests ---------

type c19SeqStep struct {
	Token     string   `json:"token"`
	ViaQuery  bool     `json:"via_query,omitempty"`
	VerifyErr bool     `json:"verify_err,omitempty"`
	Allow     []string `json:"allow"`
}

type c19Seq struct {
	Steps []c19SeqStep `json:"steps"`
}

// runC19Seq sends the steps, one after the other, through ONE auth.Handler whose verifier answers what the
// current step says (tokens get revoked, re-scoped, re-issued): every request must be judged by the verdict the
// verifier gives for it, not by an earlier one.
func runC19Seq(c c19Seq) *Violation {
	var cur c19SeqStep
	var verified []string
	var nextRan int
	var nextPerms []string
	sentinel := auth.Permission("__default_sentinel__")
	h := &auth.Handler{
		Verify: func(ctx context.Context, token string) ([]auth.Permission, error) {
			verified = append(verified, token)
			if cur.VerifyErr {
				return nil, errors.New("rejected")
			}
			return toPerms(cur.Allow), nil
		},
		Next: func(w http.ResponseWriter, r *http.Request) {
			nextRan++
			for _, p := range c19Universe {
				if auth.HasPerm(r.Context(), []auth.Permission{sentinel}, p) {
					nextPerms = append(nextPerms, string(p))
				}
			}
			w.WriteHeader(204)
		},
	}
	for i, st := range c.Steps {
		cur, verified, nextRan, nextPerms = st, nil, 0, nil
		target := "http://example.invalid/rpc/v0"
		if st.ViaQuery {
			target += "?token=" + url.QueryEscape(st.Token)
		}
		req := httptest.NewRequest("POST", target, strings.NewReader("{}"))
		if !st.ViaQuery {
			req.Header.Set("Authorization", "Bearer "+st.Token)
		}
		rw := httptest.NewRecorder()
		h.ServeHTTP(rw, req)
		if len(verified) != 1 || verified[0] != st.Token {
			return violf("seq-verifier-not-consulted", "step %d of %d (token %q): the verifier saw %q", i+1, len(c.Steps), st.Token, verified)
		}
		if st.VerifyErr {
			if rw.Code != 401 || nextRan != 0 {
				return violf("seq-rejected-token-passed", "step %d of %d: token %q is rejected by the verifier now, yet status %d and next ran %d times", i+1, len(c.Steps), st.Token, rw.Code, nextRan)
			}
			continue
		}
		if rw.Code != 204 || nextRan != 1 {
			return violf("seq-accepted-token-refused", "step %d of %d: token %q is accepted by the verifier now, yet status %d and next ran %d times", i+1, len(c.Steps), st.Token, rw.Code, nextRan)
		}
		want := []string{}
		for _, p := range c19Universe {
			if containsStr(st.Allow, string(p)) {
				want = append(want, string(p))
			}
		}
		if fmt.Sprint(want) != fmt.Sprint(append([]string{}, nextPerms...)) {
			return violf("seq-stale-permissions", "step %d of %d: the verifier returned %v for token %q, but %v was attached", i+1, len(c.Steps), st.Allow, st.Token, nextPerms)
		}
	}
	return nil
}

// ---- end to end: auth handler -> RPC server -> permissioned proxy ---------

// c19API exposes the permissioned proxy's function fields as methods (the way
// lotus-style API structs do), so that the RPC server can register them.
type c19API struct{ px *c19Proxy }

func (a *c19API) ReadV(ctx context.Context, x int) (int, error)  { return a.px.ReadV(ctx, x) }
func (a *c19API) WriteV(ctx context.Context, x int) (int, error) { return a.px.WriteV(ctx, x) }
func (a *c19API) AdminV(ctx context.Context, x int) (int, error) { return a.px.AdminV(ctx, x) }

type c19E2E struct {
	srv   *httptest.Server
	impl  *c19Impl
	perms map[string][]string
}

func newC19E2E(defaults []string) *c19E2E {
	e := &c19E2E{impl: &c19Impl{}, perms: map[string][]string{}}
	var px c19Proxy
	auth.PermissionedProxy(c19Universe, toPerms(defaults), e.impl, &px)
	rpc := jsonrpc.NewServer()
	rpc.Register("P", &c19API{px: &px})
	h := &auth.Handler{
		Verify: func(ctx context.Context, token string) ([]auth.Permission, error) {
			var set []string
			if err := json.Unmarshal([]byte(token), &set); err != nil {
				return nil, err
			}
			return toPerms(set), nil
		},
		Next: rpc.ServeHTTP,
	}
	e.srv = httptest.NewServer(h)
	return e
}

type c19E2ECase struct {
	Defaults []string `json:"defaults"`
	Token    *string  `json:"token"` // JSON list of permissions, or garbage; nil = no header
	Required int      `json:"required"`
	WS       bool     `json:"ws"`
}

func runC19E2E(c c19E2ECase) *Violation {
	e := newC19E2E(c.Defaults)
	defer closeTestServer(e.srv)
	var hdr http.Header
	if c.Token != nil {
		hdr = http.Header{"Authorization": []string{"Bearer " + *c.Token}}
	}
	var cl struct {
		ReadV  func(ctx context.Context, x int) (int, error)
		WriteV func(ctx context.Context, x int) (int, error)
		AdminV func(ctx context.Context, x int) (int, error)
	}
	addr := "http://" + e.srv.Listener.Addr().String()
	if c.WS {
		addr = "ws://" + e.srv.Listener.Addr().String()
	}
	var set []string
	tokenOK := true
	if c.Token != nil {
		tokenOK = json.Unmarshal([]byte(*c.Token), &set) == nil
	}
	closer, err := jsonrpc.NewMergeClient(context.Background(), addr, "P", []interface{}{&cl}, hdr)
	if err != nil {
		if c.WS && !tokenOK {
			return nil // handshake refused with 401: nothing ran
		}
		return violf("e2e-client", "client creation failed: %v", err)
	}
	defer closer()
	fns := []func(context.Context, int) (int, error){cl.ReadV, cl.WriteV, cl.AdminV}
	v, err := fns[c.Required](context.Background(), 20)
	eff := c.Defaults
	if c.Token != nil {
		eff = set
	}
	allowed := tokenOK && containsStr(eff, string(c19Universe[c.Required]))
	ran := atomic.LoadInt64(&e.impl.calls[3+c.Required])
	var total int64
	for i := range e.impl.calls {
		total += atomic.LoadInt64(&e.impl.calls[i])
	}
	if allowed {
		if err != nil || v != 41 || ran != 1 || total != 1 {
			return violf("e2e-not-run-with-permission", "allowed call: v=%d err=%v ran=%d total=%d", v, err, ran, total)
		}
		return nil
	}
	if total != 0 {
		return violf("e2e-ran-without-permission", "denied call ran the implementation (%d executions), eff=%v tokenOK=%v", total, eff, tokenOK)
	}
	if err == nil || v != 0 {
		return violf("e2e-denied-without-error", "denied call returned v=%d err=%v", v, err)
	}
	return nil
}

// ---- generators -----------------------------------------------------------

func genPermList(t *rapid.T, label string) []string {
	pool := []string{"read", "write", "admin", "read", "sign", ""}
	n := rapid.IntRange(0, 5).Draw(t, label+"_n")
	out := make([]string, 0, n)
	for i := 0; i < n; i++ {
		out = append(out, rapid.SampledFrom(pool).Draw(t, label))
	}
	return out
}

func maskSet(m int) []string {
	out := []string{}
	for i, p := range c19Universe {
		if m&(1<<i) != 0 {
			out = append(out, string(p))
		}
	}
	return out
}

func genTokenString(t *rapid.T, label string) string {
	return rapid.OneOf(
		rapid.SampledFrom([]string{"t", "abc.def.ghi", " ", "Bearer x", "Bearer ", "x y", "Bearer", "bearer t", "tok&en=1", "%20", "ü"}),
		rapid.StringMatching(`[A-Za-z0-9._~+/=-]{1,24}`),
	).Draw(t, label)
}

// runC19Concurrent: overlapping requests with different tokens through ONE auth.Handler; every request must see
// exactly the permissions verified for its own token for as long as it is being served.
type c19Concurrent struct {
	Sets   [][]string `json:"sets"`
	Rounds int        `json:"rounds"`
}

func runC19Concurrent(c c19Concurrent) *Violation {
	var mu sync.Mutex
	var bad string
	sentinel := auth.Permission("__default_sentinel__")
	read := func(ctx context.Context) string {
		out := []string{}
		for _, p := range c19Universe {
			if auth.HasPerm(ctx, []auth.Permission{sentinel}, p) {
				out = append(out, string(p))
			}
		}
		return strings.Join(out, ",")
	}
	gate := make(chan struct{})
	h := &auth.Handler{
		Verify: func(ctx context.Context, token string) ([]auth.Permission, error) {
			var set []string
			_ = json.Unmarshal([]byte(token), &set)
			return toPerms(set), nil
		},
		Next: func(w http.ResponseWriter, r *http.Request) {
			want := r.URL.Query().Get("want")
			first := read(r.Context())
			<-gate // stay inside Next while the other requests pass through the handler
			second := read(r.Context())
			if first != want || second != want {
				mu.Lock()
				bad = fmt.Sprintf("request verified as [%s] saw [%s] on entry and [%s] after other requests had been served", want, first, second)
				mu.Unlock()
			}
		},
	}
	for round := 0; round < c.Rounds; round++ {
		gate = make(chan struct{})
		var wg sync.WaitGroup
		for _, set := range c.Sets {
			want := []string{}
			for _, p := range c19Universe {
				if containsStr(set, string(p)) {
					want = append(want, string(p))
				}
			}
			req := httptest.NewRequest("POST", "http://example.invalid/rpc?want="+url.QueryEscape(strings.Join(want, ",")), strings.NewReader("{}"))
			req.Header.Set("Authorization", "Bearer "+string(mustJSON(set)))
			wg.Add(1)
			go func() {
				defer wg.Done()
				h.ServeHTTP(httptest.NewRecorder(), req)
			}()
			time.Sleep(200 * time.Microsecond) // requests enter one after the other and overlap inside Next
		}
		close(gate)
		wg.Wait()
		if bad != "" {
			return violf("permissions-changed-under-request", "%s", bad)
		}
	}
	return nil
}

func TestC19(t *testing.T) {
	rec := NewRec("C19", "proxy cases: exhaustive (caller set x default set x attached x required x shape x an earlier attachment on the same context chain {none, the complement, everything}) over a 3-permission universe plus generated lists with duplicates/foreign/empty permissions; HTTP cases: header form x query form x verifier outcome x HTTP method {POST, GET, OPTIONS, PUT, HEAD, DELETE} x a set already attached by an outer layer; histories of 2-8 requests on one handler whose verifier changes its verdict for a token between requests (revoked, re-scoped, re-issued). Non-trivial = the effective set is non-empty and differs from the set that was NOT chosen (attached vs defaults disagree on the verdict), or an HTTP case carrying a token; distinct by descriptor hash")
	defer rec.Finish(t)
	rec.RequireClass("attached_twice_verdicts_differ", "http_pre_attached", "http_method_OPTIONS", "sequence_verdict_changes", "concurrent_requests", "proxy_denied", "proxy_allowed", "attached_empty", "http_malformed", "http_rejected", "http_query_token", "http_both")

	proxyClasses := func(c c19Case) (bool, []string) {
		req := string(c19Universe[c.Required])
		inC, inD := containsStr(c.Caller, req), containsStr(c.Defaults, req)
		eff := inD
		if c.Attached {
			eff = inC
		}
		cl := []string{"proxy"}
		if eff {
			cl = append(cl, "proxy_allowed")
		} else {
			cl = append(cl, "proxy_denied")
		}
		if c.Attached && len(c.Caller) == 0 {
			cl = append(cl, "attached_empty")
		}
		if c.Attached && c.Pre != nil {
			cl = append(cl, "attached_twice")
			if containsStr(*c.Pre, req) != inC {
				return true, append(cl, "attached_twice_verdicts_differ")
			}
		}
		return inC != inD, cl
	}

	// exhaustive part: 8 x 8 x 2 x 3 x 2 (x impl outcome x nil/empty attach form)
	t.Run("exhaustive", func(t *testing.T) {
		n := 0
		for cm := 0; cm < 8; cm++ {
			for dm := 0; dm < 8; dm++ {
				for att := 0; att < 2; att++ {
					for req := 0; req < 3; req++ {
						for shape := 0; shape < 2; shape++ {
							for fail := 0; fail < 2; fail++ {
								for nilset := 0; nilset < 2; nilset++ {
									if nilset == 1 && !(att == 1 && cm == 0) {
										continue
									}
									for pre := 0; pre < 3; pre++ {
										c := c19Case{Caller: maskSet(cm), Attached: att == 1, NilSet: nilset == 1, Defaults: maskSet(dm), Required: req, Value: shape == 1, ImplFail: fail == 1, X: n}
										if pre > 0 {
											if att == 0 {
												continue
											}
											// an earlier attachment on the same chain: everything the later one lacks, or everything
											p := maskSet(7 &^ cm)
											if pre == 2 {
												p = maskSet(7)
											}
											c.Pre = &p
										}
										nt, cl := proxyClasses(c)
										rec.Run(t, c, nt, cl, func() *Violation { return runC19Proxy(c) })
										n++
									}
								}
							}
						}
					}
				}
			}
		}
		rec.SetExtra("exhaustive_proxy_cases", n)
		rec.Exhaustive(true)
	})

	t.Run("http-grid", func(t *testing.T) {
		s := func(x string) *string { return &x }
		headers := []*string{nil, s(""), s("Bearer t"), s("Bearer "), s("Bearer"), s("bearer t"), s("Basic t"), s("t"), s("xBearer t"), s(" Bearer t"), s("Bearer  t"), s("Bearer Bearer t")}
		queries := []*string{nil, s(""), s("q"), s("Bearer q"), s("a b&c")}
		for _, h := range headers {
			for _, q := range queries {
				for ve := 0; ve < 2; ve++ {
					for am := 0; am < 9; am++ {
						if ve == 1 && am > 0 {
							continue
						}
						c := c19HTTPCase{Header: h, Query: q, VerifyErr: ve == 1}
						if am == 8 {
							c.AllowNil = true
						} else {
							c.Allow = maskSet(am)
						}
						rec.Run(t, c, (h != nil && *h != "") || (q != nil && *q != ""), httpClasses(c), func() *Violation { return runC19HTTP(c) })
						if am == 0 || am == 5 {
							// the same request under other HTTP methods
							for _, m := range []string{"GET", "OPTIONS", "PUT"} {
								cm := c
								cm.Method = m
								rec.Run(t, cm, (h != nil && *h != "") || (q != nil && *q != ""), append(httpClasses(cm), "http_method_"+m), func() *Violation { return runC19HTTP(cm) })
							}
						}
					}
				}
			}
		}
	})

	t.Run("concurrent", func(t *testing.T) {
		for _, sets := range [][][]string{
			{{"read", "write", "admin"}, {"read"}, {"admin"}, {}},
			{{"read"}, {"admin", "write"}, {"read", "write", "admin"}, {"write"}},
			{{}, {"admin"}, {"read"}},
		} {
			c := c19Concurrent{Sets: sets, Rounds: 3}
			rec.Run(t, c, true, []string{"http", "concurrent_requests"}, func() *Violation { return runC19Concurrent(c) })
		}
	})

	t.Run("sequences", func(t *testing.T) {
		for _, steps := range [][]c19SeqStep{
			{{Token: "t1", Allow: []string{"read", "write", "admin"}}, {Token: "t1", Allow: []string{"read"}}, {Token: "t1", VerifyErr: true}, {Token: "t1", Allow: []string{}}, {Token: "t1", Allow: []string{"admin"}}},
			{{Token: "t1", VerifyErr: true}, {Token: "t1", Allow: []string{"write"}}, {Token: "t2", Allow: []string{"read"}}, {Token: "t1", ViaQuery: true, Allow: []string{"read"}}},
		} {
			c := c19Seq{Steps: steps}
			rec.Run(t, c, true, []string{"http", "sequence_verdict_changes"}, func() *Violation { return runC19Seq(c) })
		}
	})

	t.Run("e2e-grid", func(t *testing.T) {
		s := func(x string) *string { return &x }
		toks := []*string{nil, s(`["read"]`), s(`["write","admin"]`), s(`[]`), s(`garbage`)}
		for _, dm := range []int{0, 1, 7} {
			for _, tk := range toks {
				for req := 0; req < 3; req++ {
					for ws := 0; ws < 2; ws++ {
						c := c19E2ECase{Defaults: maskSet(dm), Token: tk, Required: req, WS: ws == 1}
						rec.Run(t, c, tk != nil, []string{"e2e"}, func() *Violation { return runC19E2E(c) })
					}
				}
			}
		}
	})

	rec.Rapid(t, "rapid", func(rt *rapid.T) {
		switch rapid.IntRange(0, 11).Draw(rt, "kind") {
		case 10, 11:
			n := rapid.IntRange(2, 8).Draw(rt, "n")
			c := c19Seq{}
			changes := false
			last := map[string]string{}
			for i := 0; i < n; i++ {
				st := c19SeqStep{Token: rapid.SampledFrom([]string{"t1", "t2", "eyJhbGciOi.x.y"}).Draw(rt, "token"), ViaQuery: rapid.IntRange(0, 3).Draw(rt, "q") == 0,
					VerifyErr: rapid.IntRange(0, 3).Draw(rt, "err") == 0, Allow: maskSet(rapid.IntRange(0, 7).Draw(rt, "allow"))}
				verdict := fmt.Sprint(st.VerifyErr, st.Allow)
				if prev, ok := last[st.Token]; ok && prev != verdict {
					changes = true
				}
				last[st.Token] = verdict
				c.Steps = append(c.Steps, st)
			}
			cl := []string{"http", "sequence"}
			if changes {
				cl = append(cl, "sequence_verdict_changes")
			}
			rec.Run(rt, c, changes, cl, func() *Violation { return runC19Seq(c) })
		case 0, 1, 2, 3, 4, 5:
			c := c19Case{
				Caller: genPermList(rt, "caller"), Attached: rapid.Bool().Draw(rt, "attached"), NilSet: rapid.Bool().Draw(rt, "nilset"),
				Defaults: genPermList(rt, "defaults"), Required: rapid.IntRange(0, 2).Draw(rt, "required"),
				Value: rapid.Bool().Draw(rt, "value"), ImplFail: rapid.Bool().Draw(rt, "implfail"), X: rapid.IntRange(-1000, 1000).Draw(rt, "x"),
			}
			if c.Attached && rapid.IntRange(0, 2).Draw(rt, "pre") == 0 {
				p := genPermList(rt, "prelist")
				c.Pre = &p
			}
			nt, cl := proxyClasses(c)
			rec.Run(rt, c, nt, cl, func() *Violation { return runC19Proxy(c) })
		default:
			c := c19HTTPCase{VerifyErr: rapid.IntRange(0, 3).Draw(rt, "verr") == 0, Allow: genPermList(rt, "allow"), AllowNil: rapid.Bool().Draw(rt, "allownil"),
				Method: rapid.SampledFrom([]string{"", "", "", "GET", "OPTIONS", "PUT", "HEAD", "DELETE"}).Draw(rt, "method")}
			switch rapid.IntRange(0, 3).Draw(rt, "hform") {
			case 0:
			case 1:
				x := "Bearer " + genTokenString(rt, "htoken")
				c.Header = &x
			default:
				x := genTokenString(rt, "hraw")
				c.Header = &x
			}
			if rapid.IntRange(0, 2).Draw(rt, "qform") == 0 {
				x := genTokenString(rt, "qtoken")
				c.Query = &x
			}
			if rapid.IntRange(0, 2).Draw(rt, "pre") == 0 {
				p := genPermList(rt, "prelist")
				c.Pre = &p
			}
			rec.Run(rt, c, c.Header != nil || c.Query != nil, httpClasses(c), func() *Violation { return runC19HTTP(c) })
		}
	})
}

func httpClasses(c c19HTTPCase) []string {
	cl := []string{"http"}
	h, q := "", ""
	if c.Header != nil {
		h = *c.Header
	}
	if c.Query != nil {
		q = *c.Query
	}
	if c.Pre != nil && (h != "" || q != "") {
		cl = append(cl, "http_pre_attached")
	}
	if h != "" && !strings.HasPrefix(h, "Bearer ") {
		cl = append(cl, "http_malformed")
	}
	if c.VerifyErr && (h != "" || q != "") {
		cl = append(cl, "http_rejected")
	}
	if h == "" && q != "" {
		cl = append(cl, "http_query_token")
	}
	if h != "" && q != "" {
		cl = append(cl, "http_both")
	}
	if h == "" && q == "" {
		cl = append(cl, "http_tokenless")
	}
	return cl
}

func TestC19Replay(t *testing.T) {
	Replay(t, "C19", 1, func(raw json.RawMessage) *Violation {
		var probe map[string]json.RawMessage
		_ = json.Unmarshal(raw, &probe)
		if _, ok := probe["steps"]; ok {
			var c c19Seq
			_ = json.Unmarshal(raw, &c)
			return runC19Seq(c)
		}
		if _, ok := probe["rounds"]; ok {
			var c c19Concurrent
			_ = json.Unmarshal(raw, &c)
			return runC19Concurrent(c)
		}
		if _, ok := probe["verify_err"]; ok {
			var c c19HTTPCase
			_ = json.Unmarshal(raw, &c)
			return runC19HTTP(c)
		}
		if _, ok := probe["ws"]; ok {
			var c c19E2ECase
			_ = json.Unmarshal(raw, &c)
			return runC19E2E(c)
		}
		var c c19Case
		_ = json.Unmarshal(raw, &c)
		return runC19Proxy(c)
	})
}
