package harness

// C01 - remote calls are transparent: args in, results out, on every transport.
//
// Generator: a method of the generated signature grid x an argument tuple from
// edge-biased typed generators x the handler's scripted outcome x formatter;
// every case runs on ws, http and custom transports.
// Oracle: the handler that ran is the chosen method, exactly once; every recorded
// argument equals the encoding/json round-trip of what was passed (DeepEqual and
// byte-equal re-marshalling); the caller gets the round-trip of the scripted
// result, or the zero value plus a non-nil error carrying the handler's message.

import (
	"bytes"
	"context"
	"encoding/json"
	"errors"
	"fmt"
	"io"
	"net/http/httptest"
	"reflect"
	"sync"
	"sync/atomic"
	"testing"
	"time"

	jsonrpc "github.com/filecoin-project/go-jsonrpc"
	"pgregory.net/rapid"
)

type c01Endpoint struct {
	api     *SigAPI
	srv     *httptest.Server
	clients map[string]*SigClient // by transport
	closers []func()
	traced  atomic.Int64 // calls seen by the server's tracer (two of the five endpoints have one)
}

type c01Env struct {
	mu     sync.Mutex
	eps    map[string]*c01Endpoint // by formatter name
	decoys []func()
}

var c01Formatters = []string{"default", "ns+lower", "nons", "nons+lower", "custom_sep"}
var c01Transports = []string{"ws", "http", "custom"}

// c01Decoy: an unrelated client/server pair in the same process whose options transform common types; options given
// to one client must not leak into any other client (created before or after it).
func c01Decoy() (func(), error) {
	rpc := jsonrpc.NewServer()
	rpc.Register("D", NewBasicAPI())
	var cl struct {
		Echo func(s string) (string, error)
	}
	return jsonrpc.NewCustomClient("D", []interface{}{&cl}, func(ctx context.Context, body []byte) (io.ReadCloser, error) {
		var buf bytes.Buffer
		rpc.HandleRequest(ctx, bytes.NewReader(body), &buf)
		return io.NopCloser(&buf), nil
	},
		jsonrpc.WithParamEncoder(new(string), func(v reflect.Value) (reflect.Value, error) { return reflect.ValueOf(v.String() + "!decoy"), nil }),
		jsonrpc.WithParamEncoder(new(int64), func(v reflect.Value) (reflect.Value, error) { return reflect.ValueOf(v.Int() * 100), nil }),
		jsonrpc.WithParamEncoder(new(bool), func(v reflect.Value) (reflect.Value, error) { return reflect.ValueOf(!v.Bool()), nil }),
		jsonrpc.WithClientHandlerAlias("Sig.M001", "Sig.M002"))
}

func newC01Env() (*c01Env, error) {
	env := &c01Env{eps: map[string]*c01Endpoint{}}
	if closer, err := c01Decoy(); err == nil {
		env.decoys = append(env.decoys, closer)
	}
	defer func() {
		if closer, err := c01Decoy(); err == nil {
			env.decoys = append(env.decoys, closer)
		}
	}()
	for _, fn := range c01Formatters {
		f := c12Formatter(fn)
		ep := &c01Endpoint{api: &SigAPI{}, clients: map[string]*SigClient{}}
		sopts := []jsonrpc.ServerOption{jsonrpc.WithServerMethodNameFormatter(f), jsonrpc.WithParamDecoder(new(Opaque), opaqueDecoder)}
		if fn == "ns+lower" || fn == "custom_sep" {
			// a tracer that looks at everything it is handed: the outcome of a call must not depend on being traced
			sopts = append(sopts, jsonrpc.WithTracer(func(method string, params []reflect.Value, results []reflect.Value, err error) {
				for _, v := range append(append([]reflect.Value{}, params...), results...) {
					if v.IsValid() && v.CanInterface() {
						_ = fmt.Sprintf("%v", v.Interface())
					}
				}
				ep.traced.Add(1)
			}))
		}
		rpc := jsonrpc.NewServer(sopts...)
		rpc.Register("Sig", ep.api)
		ep.srv = httptest.NewServer(rpc)
		opts := []jsonrpc.Option{jsonrpc.WithMethodNameFormatter(f), jsonrpc.WithParamEncoder(new(Opaque), opaqueEncoder)}
		for _, tr := range c01Transports {
			cl := &SigClient{}
			var closer jsonrpc.ClientCloser
			var err error
			switch tr {
			case "ws":
				closer, err = jsonrpc.NewMergeClient(context.Background(), "ws://"+ep.srv.Listener.Addr().String(), "Sig", []interface{}{cl}, nil, opts...)
			case "http":
				closer, err = jsonrpc.NewMergeClient(context.Background(), "http://"+ep.srv.Listener.Addr().String(), "Sig", []interface{}{cl}, nil, opts...)
			default:
				closer, err = jsonrpc.NewCustomClient("Sig", []interface{}{cl}, func(ctx context.Context, body []byte) (io.ReadCloser, error) {
					pr, pw := io.Pipe()
					go func() {
						defer pw.Close()
						rpc.HandleRequest(ctx, bytes.NewReader(body), pw)
					}()
					return pr, nil
				}, opts...)
			}
			if err != nil {
				return nil, fmt.Errorf("client %s/%s: %w", fn, tr, err)
			}
			ep.clients[tr] = cl
			ep.closers = append(ep.closers, closer)
		}
		env.eps[fn] = ep
	}
	return env, nil
}

func (e *c01Env) Close() { bounded(5*time.Second, e.closeInner) }

func (e *c01Env) closeInner() {
	for _, ep := range e.eps {
		for _, c := range ep.closers {
			c()
		}
		closeTestServer(ep.srv)
	}
}

type c01Case struct {
	Method     string      `json:"method"`
	Formatter  string      `json:"formatter"`
	Args       []typedText `json:"args"`
	Result     *typedText  `json:"result,omitempty"`
	HandlerErr *string     `json:"handler_err,omitempty"`
	Transports []string    `json:"transports,omitempty"` // default: all three
}

func sigMethodByName(n string) *sigMethod {
	for i := range sigMethods {
		if sigMethods[i].Name == n {
			return &sigMethods[i]
		}
	}
	return nil
}

type c01Outcome struct {
	recArgs string
	result  string
	errStr  string
}

func (e *c01Env) run(c c01Case) *Violation {
	e.mu.Lock()
	defer e.mu.Unlock()
	m := sigMethodByName(c.Method)
	ep := e.eps[c.Formatter]
	if m == nil || ep == nil || len(c.Args) != len(m.Params) {
		return nil
	}
	trs := c.Transports
	if len(trs) == 0 {
		trs = c01Transports
	}
	var outcomes []c01Outcome
	for _, tr := range trs {
		args := []reflect.Value{}
		if m.Ctx {
			args = append(args, reflect.ValueOf(context.Background()))
		}
		var expArgs []reflect.Value
		for i, a := range c.Args {
			v := fromText(a)
			args = append(args, v)
			rv, err := roundtrip(m.Params[i], v)
			if err != nil {
				return nil // not serialisable: outside the property's domain
			}
			expArgs = append(expArgs, rv)
		}
		sc := sigScript{}
		var expRes reflect.Value
		if c.Result != nil && m.ResType != "" {
			rv := fromText(*c.Result)
			sc.val = rv.Interface()
			var err error
			expRes, err = roundtrip(m.ResType, rv)
			if err != nil {
				return nil
			}
		}
		if c.HandlerErr != nil && (m.Res == "err" || m.Res == "valerr") {
			sc.err = errors.New(*c.HandlerErr)
		}
		ep.api.script(sc)
		fn := reflect.ValueOf(ep.clients[tr]).Elem().FieldByName(m.Name)
		var out []reflect.Value
		var pan interface{}
		func() {
			defer func() { pan = recover() }()
			out = fn.Call(args)
		}()
		if pan != nil {
			return violf("client-panic", "%s over %s: client function panicked: %v", m.Name, tr, pan)
		}
		log := ep.api.take()

		var callErr error
		if m.Res == "err" {
			callErr, _ = out[0].Interface().(error)
		} else if m.Res == "valerr" {
			callErr, _ = out[1].Interface().(error)
		}
		// 1. exactly the chosen handler, exactly once
		if len(log) != 1 || log[0].Name != m.Name {
			names := []string{}
			for _, l := range log {
				names = append(names, l.Name)
			}
			key := "handler-not-run"
			if len(log) > 0 {
				key = "wrong-handler-ran"
			}
			for i, a := range c.Args {
				if m.Params[i] == "Any" && a.J == "null" && len(log) == 0 {
					key = "nil-interface-param"
				}
			}
			return violf(key, "%s over %s (%s): handlers that ran: %v, client error: %v", m.Name, tr, c.Formatter, names, callErr)
		}
		if log[0].HasCtx != m.Ctx {
			return violf("ctx-mismatch", "%s over %s: handler ctx present=%v, declared=%v", m.Name, tr, log[0].HasCtx, m.Ctx)
		}
		// 2. arguments
		if len(log[0].Args) != len(expArgs) {
			return violf("arg-count", "%s over %s: handler saw %d args, sent %d", m.Name, tr, len(log[0].Args), len(expArgs))
		}
		recText := ""
		for i := range expArgs {
			got := log[0].Args[i]
			if !sameValue(m.Params[i], got, expArgs[i].Interface()) {
				return violf("arg-mismatch", "%s over %s: param %d (%s): handler saw %s, JSON round-trip of the argument is %s", m.Name, tr, i, m.Params[i], showVal(got), showVal(expArgs[i].Interface()))
			}
			recText += showVal(got) + ";"
		}
		// 3. results
		oc := c01Outcome{recArgs: recText}
		hasVal := m.Res == "val" || m.Res == "valerr"
		failed := sc.err != nil
		if hasVal {
			got := out[0].Interface()
			if failed {
				zero := reflect.Zero(sigTypes[m.ResType]).Interface()
				if !reflect.DeepEqual(got, zero) {
					return violf("nonzero-value-with-error", "%s over %s: handler failed but the caller got value %s", m.Name, tr, showVal(got))
				}
			} else if !sameValue(m.ResType, got, expRes.Interface()) {
				return violf("result-mismatch", "%s over %s: caller got %s, JSON round-trip of the handler's result is %s", m.Name, tr, showVal(got), showVal(expRes.Interface()))
			}
			oc.result = showVal(got)
		}
		if m.Res == "err" || m.Res == "valerr" {
			if failed {
				if callErr == nil {
					return violf("error-lost", "%s over %s: handler returned error %q, caller got nil", m.Name, tr, *c.HandlerErr)
				}
				if callErr.Error() != *c.HandlerErr {
					return violf("error-message", "%s over %s: handler error %q arrived as %q", m.Name, tr, *c.HandlerErr, callErr.Error())
				}
			} else if callErr != nil {
				return violf("spurious-error", "%s over %s: handler succeeded, caller got error %v", m.Name, tr, callErr)
			}
			if callErr != nil {
				oc.errStr = callErr.Error()
			}
		}
		outcomes = append(outcomes, oc)
	}
	// 4. differential across transports
	for i := 1; i < len(outcomes); i++ {
		if outcomes[i] != outcomes[0] {
			return violf("transport-difference", "%s: outcome over %s differs from %s: %+v vs %+v", c.Method, trs[i], trs[0], outcomes[i], outcomes[0])
		}
	}
	return nil
}

func showVal(v interface{}) string {
	if o, ok := v.(Opaque); ok {
		return "Opaque(" + o.Tag + ")"
	}
	if r, ok := v.(jsonrpc.RawParams); ok {
		return "RawParams(" + string(r) + ")"
	}
	b, err := json.Marshal(v)
	if err != nil {
		return fmt.Sprintf("%#v", v)
	}
	return fmt.Sprintf("%T(%s)", v, trunc(string(b), 200))
}

func genC01Case(t *rapid.T) (c01Case, []string) {
	m := sigMethods[rapid.IntRange(0, len(sigMethods)-1).Draw(t, "method")]
	c := c01Case{Method: m.Name, Formatter: rapid.SampledFrom(c01Formatters).Draw(t, "formatter")}
	var classes []string
	for i, p := range m.Params {
		v, cl := genValue(t, p, fmt.Sprintf("a%d", i))
		c.Args = append(c.Args, toText(p, v))
		if cl != "" {
			classes = append(classes, "arg_"+cl)
		}
	}
	if m.ResType != "" {
		v, cl := genValue(t, m.ResType, "res")
		tt := toText(m.ResType, v)
		c.Result = &tt
		if cl != "" {
			classes = append(classes, "res_"+cl)
		}
	}
	if (m.Res == "err" || m.Res == "valerr") && rapid.IntRange(0, 3).Draw(t, "fail") == 0 {
		s, _ := genString(t, "errmsg")
		if rapid.Bool().Draw(t, "plainerr") {
			s = "boom"
		}
		c.HandlerErr = &s
		classes = append(classes, "handler_error")
	}
	return c, classes
}

func c01NT(c c01Case, edge []string) (bool, []string) {
	m := sigMethodByName(c.Method)
	cl := append([]string{"fmt_" + c.Formatter, fmt.Sprintf("nparams_%d", len(m.Params)), "res_" + m.Res}, edge...)
	if m.Ctx {
		cl = append(cl, "with_ctx")
	}
	if c.Formatter == "ns+lower" || c.Formatter == "custom_sep" {
		cl = append(cl, "traced_server")
	}
	if m.Raw {
		cl = append(cl, "raw_params_method")
	}
	nt := len(m.Params) >= 3 || (m.Ctx && len(m.Params) >= 2) || len(edge) > 0 || m.Raw
	return nt, cl
}

const c01Rule = "method drawn from a generated grid of 99 signatures (0-6 params x optional ctx x {none,value,error,(value,error)} x raw params; 14 param types rotated so that every type occurs at every position) x edge-biased typed arguments and results x 5 name formatters; each case runs over ws, http and custom transports; plus hand-written methods whose single result type is not error but has an Error method (exit code, status record). Non-trivial = >=3 params, or ctx + >=2 params, or an argument/result in an edge class (nil pointer, nil vs empty slice/map, 64-bit extremes, -0/1e308/5e-324, HTML/control/4-byte strings, raw JSON, custom marshaler, custom param codec, nil interface), or raw params; distinct by descriptor hash"

func TestC01(t *testing.T) {
	rec := NewRec("C01", c01Rule)
	defer rec.Finish(t)
	rec.RequireClass("special_result_code", "special_result_status", "arg_nil_ptr", "arg_nil_slice", "arg_empty_slice", "arg_int_extreme", "arg_neg_zero", "arg_html_string", "arg_ctrl_string", "arg_custom_param_codec", "arg_custom_marshaler", "raw_params_method", "handler_error", "nparams_6", "with_ctx", "res_nil_ptr")
	env, err := newC01Env()
	if err != nil {
		t.Fatalf("env: %v", err)
	}
	defer env.Close()

	// deterministic sweep: every method x every formatter once with fixed mid-range arguments
	rec.Regress(t, func(raw json.RawMessage) *Violation {
		var c c01Case
		if json.Unmarshal(raw, &c) != nil {
			return nil
		}
		return env.run(c)
	})
	t.Run("special-results", func(t *testing.T) {
		se := newC01SpecEnv()
		defer se.Close()
		for _, spec := range []string{"code", "status", "pair"} {
			for _, x := range []int{0, 1, -1, 7, 255, -32000, 1 << 40} {
				c := c01SpecCase{Spec: spec, X: x, M: "m<&>\u2028"}
				rec.Run(t, c, true, []string{"special_result_" + spec}, func() *Violation { return se.run(c) })
			}
		}
	})
	t.Run("grid", func(t *testing.T) {
		fixed := map[string]string{"I64": "-42", "U64": "42", "F64": "2.5", "Str": `"s<>"`, "Bool": "true", "Bytes": `"AQI="`, "Ints": "[1,2]", "MapSS": `{"k":"v"}`,
			"PInner": `{"n":1,"p":null}`, "Outer": `{"e1":1,"E2":null,"id":2,"renamed":"n","in":{"n":0,"p":null},"m":null,"b":null,"f":0,"i":null}`, "Raw": `{"a":[1]}`, "Hex": `"0x0102"`, "Any": `{"x":[1,"y"]}`, "Opaque": "tag", "RawParams": `[1,"two"]`}
		for _, m := range sigMethods {
			for _, f := range c01Formatters {
				c := c01Case{Method: m.Name, Formatter: f}
				for _, p := range m.Params {
					c.Args = append(c.Args, typedText{p, fixed[p]})
				}
				if m.ResType != "" {
					c.Result = &typedText{m.ResType, fixed[m.ResType]}
				}
				nt, cl := c01NT(c, nil)
				rec.Run(t, c, nt, cl, func() *Violation { return env.run(c) })
				if m.Res == "err" || m.Res == "valerr" {
					c2 := c
					msg := "grid-failure"
					c2.HandlerErr = &msg
					nt, cl := c01NT(c2, []string{"handler_error"})
					rec.Run(t, c2, nt, cl, func() *Violation { return env.run(c2) })
				}
			}
		}
	})

	rec.Rapid(t, "rapid", func(rt *rapid.T) {
		c, edge := genC01Case(rt)
		if rec.IsKnown("nil-interface-param") {
			m := sigMethodByName(c.Method)
			for i, a := range c.Args {
				if m.Params[i] == "Any" && a.J == "null" {
					rec.Excluded()
					c.Args[i].J = "0"
				}
			}
		}
		nt, cl := c01NT(c, edge)
		rec.Run(rt, c, nt, cl, func() *Violation { return env.run(c) })
	})
}

func TestC01Replay(t *testing.T) {
	env, err := newC01Env()
	if err != nil {
		t.Fatalf("env: %v", err)
	}
	defer env.Close()
	Replay(t, "C01", 1, func(raw json.RawMessage) *Violation {
		var sc c01SpecCase
		if json.Unmarshal(raw, &sc) == nil && sc.Spec != "" {
			se := newC01SpecEnv()
			defer se.Close()
			return se.run(sc)
		}
		var c c01Case
		if err := json.Unmarshal(raw, &c); err != nil {
			return nil
		}
		return env.run(c)
	})
}

// FuzzC01: the same property driven by go's coverage-guided fuzzer through rapid.MakeFuzz.
func FuzzC01(f *testing.F) {
	env, err := newC01Env()
	if err != nil {
		f.Fatalf("env: %v", err)
	}
	rec := NewRec("C01", c01Rule)
	f.Fuzz(rapid.MakeFuzz(func(rt *rapid.T) {
		c, _ := genC01Case(rt)
		c.Transports = []string{"custom"}
		if v := env.run(c); v != nil && !rec.IsKnown(v.Key) {
			rt.Fatalf("VERIF-VIOLATION property=C01 key=%s replay=- msg=%s case=%s", v.Key, oneLine(v.Msg), string(mustJSON(c)))
		}
	}))
}
