package harness

// C07 - channel streams are ordered, lossless, duplicate-free and mutually independent.
//
// Generator: 1-5 concurrent subscriptions with lengths around every internal
// buffer size, element types {struct, int, string}, early sends, consumer
// behaviour {eager, slow, stalled then resumed, stalled for the whole case},
// interleaved unary calls, delays at chan.register / chan.forward / chan.sink.
// Oracle: each stream read to its close equals what was sent, element by
// element (values carry (token, seq)); on the wire the response announcing a
// channel precedes that channel's first value; unary calls and other streams
// complete while one consumer is stalled.

import (
	"context"
	"encoding/json"
	"fmt"
	"reflect"
	"strings"
	"sync"
	"sync/atomic"
	"testing"
	"time"

	"pgregory.net/rapid"
)

type c07Sub struct {
	Type     string `json:"type"` // item | int | str | rich (optional fields, map, slice, pointer) | nan (floats, one of them NaN)
	N        int    `json:"n"`
	Early    int    `json:"early"`
	Pad      int    `json:"pad,omitempty"`
	Consumer string `json:"consumer"`       // eager | slow | resume | stalled
	Bare     bool   `json:"bare,omitempty"` // (item streams) the method's only result is the channel
	ChanCap  int    `json:"chan_cap,omitempty"`
}

type c07Case struct {
	Subs  []c07Sub `json:"subs"`
	Unary int      `json:"unary"`
	Late  int      `json:"late,omitempty"` // unary calls issued only after the stalled streams' handlers have sent everything
	// Flood > 0: before anything else a subscription is opened whose handler returns a channel of this capacity and
	// keeps it full for the whole case (an attentive consumer drains it); it is cancelled at the end
	Flood int `json:"flood,omitempty"`
	// RevN > 0: additionally a handler on the server subscribes to a stream of RevN elements served by the calling
	// client (reverse direction), every second element padded to RevPad bytes; the server's request size limit is
	// RevMaxReq (0 = default 100 MiB), which governs HTTP request bodies, not stream elements
	RevN      int         `json:"rev_n,omitempty"`
	RevPad    int         `json:"rev_pad,omitempty"`
	RevMaxReq int64       `json:"rev_max_req,omitempty"`
	Rules     []*HookRule `json:"rules,omitempty"`
}

// anyStream adapts the three element types to one consumer: it yields (seq, ok) per element.
type anyStream struct {
	recv func(d time.Duration) (seq int, good bool, closed bool, timedOut bool, raw string)
}

func (s c07Sub) open(cl *RigClient, ctx context.Context, tok string) (*anyStream, error) {
	plan := Plan{N: s.N, Early: s.Early, ElemPad: s.Pad, Bare: s.Bare && (s.Type == "" || s.Type == "item"), ChanCap: s.ChanCap}
	switch s.Type {
	case "int":
		ch, err := cl.C.SubInt(ctx, tok, plan)
		if err != nil {
			return nil, err
		}
		return &anyStream{recv: func(d time.Duration) (int, bool, bool, bool, string) {
			select {
			case v, ok := <-ch:
				if !ok {
					return 0, false, true, false, ""
				}
				seq := int(v % 1000000)
				return seq, v == IntItem(tok, seq), false, false, fmt.Sprint(v)
			case <-time.After(d):
				return 0, false, false, true, ""
			}
		}}, nil
	case "str":
		ch, err := cl.C.SubStr(ctx, tok, plan)
		if err != nil {
			return nil, err
		}
		return &anyStream{recv: func(d time.Duration) (int, bool, bool, bool, string) {
			select {
			case v, ok := <-ch:
				if !ok {
					return 0, false, true, false, ""
				}
				var seq int
				var t string
				for i := len(v) - 1; i >= 0; i-- {
					if v[i] == '#' {
						t = v[:i]
						fmt.Sscanf(v[i+1:], "%d", &seq)
						break
					}
				}
				return seq, t == tok && v == StrItem(tok, seq), false, false, v
			case <-time.After(d):
				return 0, false, false, true, ""
			}
		}}, nil
	}
	if s.Type == "rich" {
		ch, err := cl.C.SubRich(ctx, tok, plan)
		if err != nil {
			return nil, err
		}
		return &anyStream{recv: func(d time.Duration) (int, bool, bool, bool, string) {
			select {
			case v, ok := <-ch:
				if !ok {
					return 0, false, true, false, ""
				}
				// compared when received AND kept for a second comparison later: state bleeding into elements that
				// were already delivered shows up in the retained copies
				return v.Seq, reflect.DeepEqual(v, RichItem(tok, v.Seq)), false, false, fmt.Sprintf("%+v", v)
			case <-time.After(d):
				return 0, false, false, true, ""
			}
		}}, nil
	}
	if s.Type == "nan" {
		plan.NaNAt = s.N / 2
		ch, err := cl.C.SubFloat(ctx, tok, plan)
		if err != nil {
			return nil, err
		}
		skipped := false
		return &anyStream{recv: func(d time.Duration) (int, bool, bool, bool, string) {
			select {
			case v, ok := <-ch:
				if !ok {
					return 0, false, true, false, ""
				}
				seq := int(v)
				if seq > plan.NaNAt && !skipped {
					skipped = true
				}
				return seq, v == float64(seq)+0.5, false, false, fmt.Sprint(v)
			case <-time.After(d):
				return 0, false, false, true, ""
			}
		}}, nil
	}
	ch, err := cl.C.OpenSub(ctx, tok, plan)
	if err != nil {
		return nil, err
	}
	return &anyStream{recv: func(d time.Duration) (int, bool, bool, bool, string) {
		select {
		case v, ok := <-ch:
			if !ok {
				return 0, false, true, false, ""
			}
			return v.Seq, v.Tok == tok && v.Pad == padFor(tok, s.Pad), false, false, fmt.Sprintf("%s/%d", v.Tok, v.Seq)
		case <-time.After(d):
			return 0, false, false, true, ""
		}
	}}, nil
}

// consume reads the stream to its close and checks order / completeness.
func consumeStream(st *anyStream, tok string, n int, slow bool, budget time.Duration) *Violation {
	return consumeStreamSkipping(st, tok, n, slow, budget, -1)
}

// streamBudget is the total time a consumer allows for a stream of n values: 8 s plus a millisecond per value (tens
// of thousands of values take seconds on a saturated machine; a stream that has stopped stays stopped).
func streamBudget(n int) time.Duration {
	return 8*time.Second + time.Duration(n)*time.Millisecond
}

// consumeHead reads the first k values of a stream.
func consumeHead(st *anyStream, tok string, k int, budget time.Duration) *Violation {
	deadline := time.Now().Add(budget)
	for next := 0; next < k; next++ {
		seq, good, closed, timedOut, raw := st.recv(time.Until(deadline))
		if timedOut || closed {
			return violf("stream-stalled", "stream %s delivered %d values, then closed=%v timedOut=%v", tok, next, closed, timedOut)
		}
		if !good || seq != next {
			return violf("stream-reordered", "stream %s: received %s (seq %d), expected seq %d", tok, raw, seq, next)
		}
	}
	return nil
}

// consumeStreamFrom continues a stream at element `from` and reads it to its close.
func consumeStreamFrom(st *anyStream, tok string, n, from int, budget time.Duration, skip int) *Violation {
	deadline := time.Now().Add(budget)
	next := from
	for {
		seq, good, closed, timedOut, raw := st.recv(time.Until(deadline))
		if timedOut {
			return violf("stream-stalled", "stream %s delivered %d of %d values and then nothing for the rest of %v", tok, next, n, budget)
		}
		if next == skip && !closed && seq == skip+1 {
			next++ // the unencodable element was dropped, the stream goes on
		}
		if closed && next == skip && skip == n-1 {
			next++
		}
		if closed {
			if next != n {
				return violf("stream-closed-early", "stream %s closed after %d of %d values", tok, next, n)
			}
			return nil
		}
		if !good {
			return violf("stream-foreign-value", "stream %s received a value that is not its own: %s (expected seq %d)", tok, raw, next)
		}
		if seq != next {
			key := "stream-reordered"
			if seq == next-1 {
				key = "stream-duplicate"
			} else if seq > next {
				key = "stream-lost-value"
			}
			return violf(key, "stream %s: a consumer that had fallen %d values behind received seq %d where %d was due (of %d)", tok, n-from, seq, next, n)
		}
		next++
	}
}

// consumeStreamSkipping tolerates the absence of element `skip` (a value that cannot be encoded cannot travel).
func consumeStreamSkipping(st *anyStream, tok string, n int, slow bool, budget time.Duration, skip int) *Violation {
	deadline := time.Now().Add(budget)
	next := 0
	for {
		seq, good, closed, timedOut, raw := st.recv(time.Until(deadline))
		if timedOut {
			return violf("stream-stalled", "stream %s delivered %d of %d values and then nothing for the rest of %v", tok, next, n, budget)
		}
		if next == skip && !closed && !timedOut && seq == skip+1 {
			next++ // the unencodable element was dropped, the stream goes on
		}
		if closed && next == skip && skip == n-1 {
			next++
		}
		if closed {
			if next != n {
				return violf("stream-closed-early", "stream %s closed after %d of %d values", tok, next, n)
			}
			return nil
		}
		if !good {
			return violf("stream-foreign-value", "stream %s received a value that is not its own: %s (expected seq %d)", tok, raw, next)
		}
		if seq != next {
			key := "stream-reordered"
			if seq == next-1 {
				key = "stream-duplicate"
			} else if seq > next {
				key = "stream-lost-value"
			}
			return violf(key, "stream %s: received seq %d, expected %d (of %d)", tok, seq, next, n)
		}
		next++
		if next > n {
			return violf("stream-extra-value", "stream %s delivered more than %d values", tok, n)
		}
		if slow {
			time.Sleep(150 * time.Microsecond)
		}
	}
}

func runC07(c c07Case) (*Violation, string) {
	rig, err := NewRig(RigOpts{Reverse: c.RevN > 0, ServerMaxReq: c.RevMaxReq})
	if err != nil {
		return nil, "rig"
	}
	defer rig.Close()
	cl, err := rig.NewClient("c")
	if err != nil {
		return nil, "client"
	}
	hooks.Reset(c.Rules...)
	defer hooks.Off()
	var revCall *Pending
	if c.RevN > 0 {
		revCall = rig.Go(cl, "call", rig.Tok("rev"), Plan{RevStream: c.RevN, RevStreamPad: c.RevPad})
	}

	type sub struct {
		c07Sub
		tok string
		st  *anyStream
		err error
		v   *Violation
	}
	subs := make([]*sub, len(c.Subs))
	ctx, cancel := context.WithCancel(context.Background())
	defer cancel()
	// a producer that never pauses, on a buffered channel, next to everything else on the connection
	var floodV atomic.Value
	floodDone := make(chan struct{})
	fctx, fcancel := context.WithCancel(context.Background())
	defer fcancel()
	if c.Flood > 0 {
		ftok := rig.Tok("flood")
		fch, err := cl.C.Sub(fctx, ftok, Plan{Flood: true, ChanCap: c.Flood})
		if err != nil {
			return violf("subscribe-failed", "subscription %s failed on a healthy connection: %v", ftok, err), ""
		}
		go func() {
			defer close(floodDone)
			next := 0
			for v := range fch {
				if v.Tok != ftok || v.Seq != next {
					floodV.Store(violf("stream-reordered", "the never-pausing stream %s received %s/%d, expected seq %d", ftok, v.Tok, v.Seq, next))
					return
				}
				next++
			}
		}()
		time.Sleep(2 * time.Millisecond)
	} else {
		close(floodDone)
	}
	var wg sync.WaitGroup
	for i, sc := range c.Subs {
		subs[i] = &sub{c07Sub: sc, tok: rig.Tok(fmt.Sprintf("s%d", i))}
		wg.Add(1)
		go func(s *sub) {
			defer wg.Done()
			s.st, s.err = s.open(cl, ctx, s.tok)
		}(subs[i])
	}
	if !bounded(5*time.Second, wg.Wait) {
		return violf("subscribe-hangs", "a subscribing call did not return within 5s"), ""
	}
	for _, s := range subs {
		if s.err != nil {
			return violf("subscribe-failed", "subscription %s failed on a healthy connection: %v", s.tok, s.err), ""
		}
	}
	// consumers
	var cw sync.WaitGroup
	for _, s := range subs {
		if s.Consumer == "stalled" {
			continue
		}
		cw.Add(1)
		go func(s *sub) {
			defer cw.Done()
			if s.Consumer == "resume" {
				time.Sleep(30 * time.Millisecond)
			}
			if s.Consumer == "lagging" && s.N > 3 && s.Type != "nan" {
				// takes a few values, then falls behind by the rest of the stream before it continues
				if v := consumeHead(s.st, s.tok, 3, 5*time.Second); v != nil {
					s.v = v
					return
				}
				for deadline := time.Now().Add(4 * time.Second); time.Now().Before(deadline); time.Sleep(time.Millisecond) {
					if sent, _ := rig.W.Sent(s.tok); sent >= s.N {
						break
					}
				}
				time.Sleep(20 * time.Millisecond)
				skip := -1
				if s.Type == "nan" {
					skip = s.N / 2
				}
				s.v = consumeStreamFrom(s.st, s.tok, s.N, 3, streamBudget(s.N), skip)
				return
			}
			skip := -1
			if s.Type == "nan" {
				skip = s.N / 2
			}
			s.v = consumeStreamSkipping(s.st, s.tok, s.N, s.Consumer == "slow", streamBudget(s.N), skip)
		}(s)
	}
	// unary calls interleaved with the streams must not be blocked by any consumer
	var calls []*Pending
	for i := 0; i < c.Unary; i++ {
		calls = append(calls, rig.Go(cl, "call", rig.Tok("u"), Plan{Size: (i % 3) * 3000}))
		time.Sleep(200 * time.Microsecond)
	}
	if out := AwaitReturn(calls, 5*time.Second); len(out) > 0 {
		return violf("unary-blocked-by-stream", "unary call %s did not return within 5s while %d streams were running (consumers: %v)", out[0].Tok, len(subs), consumers(c)), ""
	}
	for _, p := range calls {
		if p.Err != nil {
			return violf("unary-failed", "unary call %s failed on a healthy connection: %v", p.Tok, p.Err), ""
		}
		if v := p.CheckOwn(); v != nil {
			return v, ""
		}
	}
	if c.Late > 0 {
		// wait until the handlers feeding stalled consumers are done (the backlog now sits in the client), then
		// make sure ordinary traffic still flows on the connection
		deadline := time.Now().Add(2 * time.Second)
		for _, s := range subs {
			for s.Consumer == "stalled" && time.Now().Before(deadline) {
				if sent, _ := rig.W.Sent(s.tok); sent >= s.N {
					break
				}
				time.Sleep(time.Millisecond)
			}
		}
		time.Sleep(30 * time.Millisecond)
		var late []*Pending
		for i := 0; i < c.Late; i++ {
			late = append(late, rig.Go(cl, "call", rig.Tok("late"), Plan{}))
		}
		if out := AwaitReturn(late, 5*time.Second); len(out) > 0 {
			return violf("unary-blocked-by-stream", "unary call %s did not return within 5s while a stalled subscriber holds a backlog (consumers: %v)", out[0].Tok, consumers(c)), ""
		}
		for _, p := range late {
			if p.Err != nil {
				return violf("unary-failed", "unary call %s failed on a healthy connection: %v", p.Tok, p.Err), ""
			}
		}
	}
	if !bounded(10*time.Second, cw.Wait) {
		return nil, "consumers did not finish"
	}
	for _, s := range subs {
		if s.v != nil {
			return s.v, ""
		}
	}
	// the stalled consumers' values were buffered, not dropped
	for _, s := range subs {
		if s.Consumer == "stalled" {
			skip := -1
			if s.Type == "nan" {
				skip = s.N / 2
			}
			if v := consumeStreamSkipping(s.st, s.tok, s.N, false, streamBudget(s.N), skip); v != nil {
				return v, ""
			}
		}
	}
	if revCall != nil {
		if out := AwaitReturn([]*Pending{revCall}, 8*time.Second); len(out) > 0 {
			return violf("stream-stalled", "the call whose handler consumes a client-served stream of %d elements did not return within 8s", c.RevN), ""
		}
		if revCall.Err != nil {
			return violf("unary-failed", "the call whose handler consumes a client-served stream failed on a healthy connection: %v", revCall.Err), ""
		}
		if want := fmt.Sprintf("stream-ok:%d", c.RevN); revCall.Res.Rev != want {
			key := "stream-lost-value"
			if strings.Contains(revCall.Res.Rev, "closed-after") {
				key = "stream-closed-early"
			}
			return violf(key, "client-served stream of %d elements (every second one padded to %d bytes, server request size limit %d): the server-side consumer reports %q", c.RevN, c.RevPad, c.RevMaxReq, revCall.Res.Rev), ""
		}
	}
	if c.Flood > 0 {
		fcancel()
		select {
		case <-floodDone:
		case <-time.After(5 * time.Second):
			return violf("channel-never-closed", "the never-pausing stream was cancelled by its caller but its channel did not close within 5s"), ""
		}
		if v, _ := floodV.Load().(*Violation); v != nil {
			return v, ""
		}
	}
	// wire order: response announcing channel n precedes the first value for n; values per channel in order
	subReq := map[string]string{} // request id -> token
	chanOf := map[string]float64{}
	announced := map[float64]int64{}
	wire := rig.Proxy.Log()
	// pass 1: subscribing requests (the two directions are logged by different goroutines, so only the
	// order *within* a direction is meaningful; requests are collected first)
	for _, m := range wire {
		var r wireReq
		if m.Opcode != 1 || m.Dir != "c2s" || json.Unmarshal(m.Payload, &r) != nil {
			continue
		}
		if strings.HasPrefix(r.Method, "Tok.Sub") {
			var tok string
			if len(r.Params) > 0 {
				_ = json.Unmarshal(r.Params[0], &tok)
			}
			subReq[string(r.ID)] = tok
		}
	}
	for _, m := range wire {
		if m.Opcode != 1 || m.Dir != "s2c" {
			continue
		}
		var r wireReq
		if json.Unmarshal(m.Payload, &r) != nil {
			continue
		}
		switch {
		case m.Dir == "s2c" && r.Method == "" && len(r.Result) > 0:
			if tok, ok := subReq[string(r.ID)]; ok {
				var id float64
				if json.Unmarshal(r.Result, &id) == nil {
					chanOf[tok] = id
					announced[id] = m.Seq
				}
			}
		case m.Dir == "s2c" && r.Method == "xrpc.ch.val" && len(r.Params) == 2:
			var id float64
			_ = json.Unmarshal(r.Params[0], &id)
			if _, ok := announced[id]; !ok {
				return violf("value-before-response", "on the wire a value for channel %v precedes the response announcing that channel", id), ""
			}
		}
	}
	if fv := rig.Proxy.FramingViolations(); len(fv) > 0 {
		return violf("framing-violation", "%v", fv), ""
	}
	return nil, ""
}

func consumers(c c07Case) []string {
	var out []string
	for _, s := range c.Subs {
		out = append(out, s.Consumer)
	}
	return out
}

var c07Lens = []int{0, 1, 2, 31, 32, 33, 34, 100, 255, 256, 257, 1000}

func c07NT(c c07Case) (bool, []string) {
	cl := []string{fmt.Sprintf("nsubs_%d", len(c.Subs))}
	nt := len(c.Subs) >= 2
	for _, s := range c.Subs {
		cl = append(cl, "consumer_"+s.Consumer, "type_"+s.Type)
		if s.N > 32 {
			cl = append(cl, "len_gt_32")
			nt = true
		}
		if s.N > 8300 {
			cl = append(cl, "len_gt_8k")
		}
		if s.N == 0 {
			cl = append(cl, "len_0")
		}
		if s.Early > 0 {
			cl = append(cl, "early_send")
			nt = true
		}
		if s.Consumer == "stalled" || s.Consumer == "resume" {
			nt = true
		}
		if s.Bare && s.Type == "item" {
			cl = append(cl, "bare_channel_result")
		}
		if s.ChanCap > s.Early {
			cl = append(cl, "buffered_handler_channel")
		}
	}
	if c.Flood > 0 {
		cl = append(cl, "never_pausing_producer")
		nt = true
	}
	if c.RevN > 0 {
		cl = append(cl, "reverse_direction_stream")
		nt = true
		if c.RevMaxReq > 0 && int64(c.RevPad) > c.RevMaxReq {
			cl = append(cl, "reverse_element_above_request_limit")
		}
	}
	if len(c.Rules) > 0 {
		cl = append(cl, "with_delays")
	}
	if c.Unary > 0 {
		cl = append(cl, "with_unary")
	}
	return nt, cl
}

const c07Rule = "1-5 concurrent subscriptions, lengths from {0,1,2,31..34,100,255..257,1000}, element types {struct with (token,seq), int64, string, struct with optional pointer/map/slice fields, float64 with one NaN}, subscribing methods returning (channel, error) or only a channel, handler channels with 0-300 spare slots, optionally one extra subscription whose producer never pauses on a buffered channel (capacity 1-1024) for the whole case, optionally a reverse-direction stream (served by the client, consumed by a server-side handler) of 1-300 elements padded up to 70 kB with the server's HTTP request size limit set as low as 1 KiB, 0..N values pre-loaded in the handler's channel buffer before it returns, consumers {eager, slow, stalled then resumed, taking three values and then falling behind by the rest of the stream, stalled for the whole case}, 0-6 interleaved unary calls, 0-3 delays at chan.register / chan.forward / chan.sink / write.locked / resp.found. Non-trivial = >=2 subscriptions, or a length > 32, or early sends, or a stalled consumer; distinct by descriptor hash"

func TestC07(t *testing.T) {
	rec := NewRec("C07", c07Rule)
	defer rec.Finish(t)
	rec.EnableJournal()
	rec.RequireClass("consumer_lagging", "reverse_direction_stream", "reverse_element_above_request_limit", "bare_channel_result", "buffered_handler_channel", "never_pausing_producer", "type_rich", "type_nan", "len_gt_8k", "len_gt_32", "len_0", "early_send", "consumer_stalled", "consumer_resume", "consumer_slow", "type_int", "type_str", "with_delays", "with_unary", "nsubs_3")
	run := func(ft failer, c c07Case) {
		nt, cl := c07NT(c)
		rec.Run(ft, c, nt, cl, func() *Violation {
			v, inc := runC07(c)
			if v != nil && (v.Key == "stream-stalled" || v.Key == "unary-blocked-by-stream" || v.Key == "subscribe-hangs") {
				if v2, _ := runC07(c); v2 == nil {
					rec.Class("unconfirmed", 1)
					return nil
				}
			}
			if inc != "" {
				rec.Class("undecided", 1)
			}
			return v
		})
	}
	t.Run("grid", func(t *testing.T) {
		for i, n := range c07Lens {
			for _, early := range []int{0, 1, n} {
				if early > n || (early == n && n > 300) {
					continue
				}
				run(t, c07Case{Subs: []c07Sub{{Type: []string{"item", "int", "str"}[i%3], N: n, Early: early, Consumer: "eager"}}, Unary: 1})
			}
		}
		// a backlog far beyond any internal buffer: 12000 unread values, then other traffic on the same connection
		run(t, c07Case{Subs: []c07Sub{{Type: "int", N: 12000, Consumer: "stalled"}, {Type: "item", N: 20, Consumer: "eager"}}, Unary: 3, Late: 3})
		run(t, c07Case{Subs: []c07Sub{{Type: "int", N: 40000, Consumer: "stalled"}, {Type: "str", N: 10, Consumer: "eager"}}, Unary: 1, Late: 4})
		// a consumer that takes a few values and then falls thousands of values behind before it continues
		run(t, c07Case{Subs: []c07Sub{{Type: "int", N: 6000, Consumer: "lagging"}, {Type: "item", N: 30, Consumer: "eager"}}, Unary: 2})
		run(t, c07Case{Subs: []c07Sub{{Type: "item", N: 9000, Consumer: "lagging"}, {Type: "str", N: 2500, Consumer: "lagging"}}, Unary: 1})
		for _, cons := range []string{"eager", "resume", "stalled"} {
			run(t, c07Case{Subs: []c07Sub{{Type: "rich", N: 40, Early: 3, Consumer: cons}, {Type: "nan", N: 9, Consumer: "eager"}, {Type: "item", N: 50, Consumer: "eager"}, {Type: "rich", N: 13, Consumer: "slow"}}, Unary: 2, Late: 1})
		}
		// methods whose only result is the channel; handler channels with spare capacity; a producer that never pauses
		run(t, c07Case{Subs: []c07Sub{{Type: "item", N: 40, Bare: true, Consumer: "eager"}, {Type: "item", N: 300, Early: 2, Bare: true, ChanCap: 16, Consumer: "slow"}, {Type: "int", N: 33, Consumer: "eager"}}, Unary: 2})
		for _, fc := range []int{1, 8, 256} {
			run(t, c07Case{Flood: fc, Subs: []c07Sub{{Type: "item", N: 20, Consumer: "eager"}, {Type: "str", N: 100, ChanCap: 4, Consumer: "eager"}, {Type: "item", N: 5, Bare: true, Consumer: "resume"}}, Unary: 3})
		}
		// reverse direction: the client serves the stream, a handler on the server consumes it
		run(t, c07Case{RevN: 40, RevPad: 10, Subs: []c07Sub{{Type: "item", N: 20, Consumer: "eager"}}, Unary: 1})
		run(t, c07Case{RevN: 9, RevPad: 70000, RevMaxReq: 32 << 10, Subs: []c07Sub{{Type: "int", N: 50, Consumer: "slow"}}, Unary: 2})
		run(t, c07Case{RevN: 300, RevPad: 5000, RevMaxReq: 4096, Subs: []c07Sub{{Type: "str", N: 10, Consumer: "stalled"}}})
		for _, cons := range []string{"stalled", "resume", "slow"} {
			run(t, c07Case{Subs: []c07Sub{{Type: "item", N: 300, Consumer: cons}, {Type: "int", N: 40, Early: 2, Consumer: "eager"}, {Type: "str", N: 33, Consumer: "eager"}}, Unary: 4})
		}
	})
	rec.Rapid(t, "rapid", func(rt *rapid.T) {
		var c c07Case
		ns := rapid.IntRange(1, 5).Draw(rt, "nsubs")
		for i := 0; i < ns; i++ {
			l := fmt.Sprintf("s%d_", i)
			s := c07Sub{Type: rapid.SampledFrom([]string{"item", "item", "int", "str", "rich", "rich", "nan"}).Draw(rt, l+"type"), Consumer: rapid.SampledFrom([]string{"eager", "eager", "slow", "resume", "stalled", "lagging"}).Draw(rt, l+"consumer")}
			if rapid.IntRange(0, 3).Draw(rt, l+"lenkind") == 0 {
				s.N = rapid.IntRange(0, 400).Draw(rt, l+"lenr")
			} else {
				s.N = rapid.SampledFrom(c07Lens).Draw(rt, l+"len")
			}
			if s.N > 300 && ns > 3 {
				s.N = 300
			}
			if s.Consumer == "lagging" && ns <= 2 && rapid.Bool().Draw(rt, l+"laglong") {
				s.N = rapid.SampledFrom([]int{2047, 2048, 2049, 2100, 4200, 7000}).Draw(rt, l+"laglen")
			}
			switch rapid.IntRange(0, 3).Draw(rt, l+"earlykind") {
			case 1:
				s.Early = rapid.IntRange(0, min(s.N, 40)).Draw(rt, l+"early")
			case 2:
				s.Early = min(s.N, 64)
			}
			if s.Type == "item" && rapid.IntRange(0, 5).Draw(rt, l+"padkind") == 0 {
				s.Pad = rapid.SampledFrom([]int{100, 5000}).Draw(rt, l+"pad")
				if s.N > 100 {
					s.N = 100
				}
				if s.Early > s.N {
					s.Early = s.N
				}
			}
			if s.Type == "item" {
				s.Bare = rapid.IntRange(0, 3).Draw(rt, l+"bare") == 0
			}
			if rapid.IntRange(0, 3).Draw(rt, l+"capkind") == 0 {
				s.ChanCap = rapid.SampledFrom([]int{1, 2, 16, 300}).Draw(rt, l+"cap")
			}
			c.Subs = append(c.Subs, s)
		}
		if rapid.IntRange(0, 5).Draw(rt, "floodkind") == 0 {
			c.Flood = rapid.SampledFrom([]int{1, 4, 64, 1024}).Draw(rt, "flood")
			for i := range c.Subs {
				if c.Subs[i].N > 300 {
					c.Subs[i].N = 300
				}
			}
		}
		if rapid.IntRange(0, 5).Draw(rt, "revkind") == 0 {
			c.RevN = rapid.SampledFrom([]int{1, 2, 33, 257}).Draw(rt, "revn")
			c.RevPad = rapid.SampledFrom([]int{0, 100, 5000, 70000}).Draw(rt, "revpad")
			c.RevMaxReq = rapid.SampledFrom([]int64{0, 1024, 4096, 64 << 10}).Draw(rt, "revmax")
			if c.RevPad > 5000 && c.RevN > 33 {
				c.RevN = 33
			}
		}
		c.Unary = rapid.IntRange(0, 6).Draw(rt, "unary")
		c.Late = rapid.IntRange(0, 2).Draw(rt, "late")
		nr := rapid.IntRange(0, 3).Draw(rt, "nrules")
		for i := 0; i < nr; i++ {
			c.Rules = append(c.Rules, &HookRule{Point: rapid.SampledFrom([]string{"chan.register", "chan.forward", "chan.sink", "write.locked", "resp.found", "resp.delivered"}).Draw(rt, fmt.Sprintf("pt%d", i)),
				Occ: rapid.IntRange(0, 5).Draw(rt, fmt.Sprintf("occ%d", i)), DelayU: rapid.SampledFrom([]int{50, 500, 3000}).Draw(rt, fmt.Sprintf("d%d", i))})
			if r := c.Rules[len(c.Rules)-1]; r.Occ == 0 && r.DelayU > 100 {
				r.DelayU = 100 // a delay at every occurrence must stay far below the consumers' budget
			}
			if r := c.Rules[len(c.Rules)-1]; r.Occ == 0 && c.Flood > 0 {
				// a never-pausing producer plus a delay on every frame is an overload made by the harness, not a schedule
				r.Occ = 1 + i
			}
		}
		run(rt, c)
	})
}

func TestC07Replay(t *testing.T) {
	Replay(t, "C07", 20, func(raw json.RawMessage) *Violation {
		var c c07Case
		if err := json.Unmarshal(raw, &c); err != nil {
			return nil
		}
		v, _ := runC07(c)
		return v
	})
}
