package harness

// Test rig for the stateful properties: token-world server behind a frame-aware
// proxy, library clients with a scriptable dial wrapper, asynchronous calls with
// the clock-free "lost call" judgement.

import (
	"context"
	"errors"
	"fmt"
	"net"
	"net/http"
	"net/http/httptest"
	"sync"
	"sync/atomic"
	"time"

	jsonrpc "github.com/filecoin-project/go-jsonrpc"
	"github.com/gorilla/websocket"
)

type RigOpts struct {
	ServerMaxReq  int64         // > 0: WithMaxRequestSize on the server
	ServerPing    time.Duration // 0 = library default (5s)
	ServerPingOff bool          // server sends no pings (and answers the client's pings with pongs)
	ClientTimeout time.Duration // 0 = library default (30s)
	ClientPing    time.Duration // 0 = library default (5s)
	ClientPingOff bool          // the client sends no pings of its own (WithPingInterval(0)); its timeout still guards reads
	BackoffMin    time.Duration
	BackoffMax    time.Duration
	NoReconnect   bool
	WithErrors    bool
	Reverse       bool
	NoProxy       bool
	// DetachCtx: the server sits behind a middleware that replaces the request context with one that is not cancelled
	// when the connection goes away (applications do this to tie hijacked connections to their own shutdown instead)
	DetachCtx bool
	// HTTPClientTimeout: http clients are built with WithTimeout(d) (a WebSocket liveness option that means nothing for http)
	HTTPClientTimeout time.Duration
}

type DialCtl struct {
	mu         sync.Mutex
	begins     []time.Time
	ends       []time.Time
	results    []bool
	failNext   int           // fail this many upcoming dials without touching the network
	hold       chan struct{} // if non-nil, redials block on it before dialling
	closedAt   int64         // unix nanos when the harness saw the closer return (0 = not yet)
	afterClose int32         // dials that began after closedAt
	held       int32
	OnBegin    func(k int) // called (synchronously) when the k-th dial (0 = initial) is about to start
}

func (d *DialCtl) wrap(inner func() (*websocket.Conn, error)) func() (*websocket.Conn, error) {
	return func() (*websocket.Conn, error) {
		now := time.Now() // the dial begins here: the library has called its connection factory
		d.mu.Lock()
		first := len(d.begins) == 0
		hold := d.hold
		d.mu.Unlock()
		if hold != nil && !first {
			atomic.AddInt32(&d.held, 1)
			<-hold
			atomic.AddInt32(&d.held, -1)
		}
		d.mu.Lock()
		onBegin, k := d.OnBegin, len(d.begins)
		d.mu.Unlock()
		if onBegin != nil {
			onBegin(k)
		}
		d.mu.Lock()
		d.begins = append(d.begins, now)
		if c := atomic.LoadInt64(&d.closedAt); c != 0 && now.UnixNano() > c {
			atomic.AddInt32(&d.afterClose, 1)
		}
		fail := d.failNext > 0 && !first
		if fail {
			d.failNext--
		}
		d.mu.Unlock()
		var conn *websocket.Conn
		var err error
		if fail {
			err = errors.New("harness: dial refused by script")
		} else {
			conn, err = inner()
		}
		d.mu.Lock()
		d.ends = append(d.ends, time.Now())
		d.results = append(d.results, err == nil)
		d.mu.Unlock()
		return conn, err
	}
}

func (d *DialCtl) Hold() {
	d.mu.Lock()
	if d.hold == nil {
		d.hold = make(chan struct{})
	}
	d.mu.Unlock()
}

func (d *DialCtl) Release() {
	d.mu.Lock()
	if d.hold != nil {
		close(d.hold)
		d.hold = nil
	}
	d.mu.Unlock()
}

func (d *DialCtl) Held() int { return int(atomic.LoadInt32(&d.held)) }

func (d *DialCtl) FailNext(n int) {
	d.mu.Lock()
	d.failNext = n
	d.mu.Unlock()
}

func (d *DialCtl) Begins() []time.Time {
	d.mu.Lock()
	defer d.mu.Unlock()
	return append([]time.Time{}, d.begins...)
}

func (d *DialCtl) Results() []bool {
	d.mu.Lock()
	defer d.mu.Unlock()
	return append([]bool{}, d.results...)
}

func (d *DialCtl) MarkClosed()     { atomic.StoreInt64(&d.closedAt, time.Now().UnixNano()) }
func (d *DialCtl) AfterClose() int { return int(atomic.LoadInt32(&d.afterClose)) }

type RigClient struct {
	C      TokClient
	closer jsonrpc.ClientCloser
	Dial   *DialCtl
	Rev    *RevHandler
	ID     string
	HTTP   bool
	closed int32
}

// Close invokes the client's closer; it reports false if the closer did not return within d.
func (c *RigClient) Close(d time.Duration) bool {
	if !atomic.CompareAndSwapInt32(&c.closed, 0, 1) {
		return true
	}
	ok := bounded(d, func() { c.closer() })
	if ok && c.Dial != nil {
		c.Dial.MarkClosed()
	}
	return ok
}

type Rig struct {
	Opts    RigOpts
	W       *World
	API     *TokAPI
	RPC     *jsonrpc.RPCServer
	Srv     *httptest.Server
	Proxy   *Proxy
	Clients []*RigClient
	tokSeq  int64
	name    string

	srvCancel context.CancelFunc // cancels the base context of every server-side connection
}

// CancelServer cancels the context every server-side connection was started with.
func (r *Rig) CancelServer() { r.srvCancel() }

var rigSeq int64

func NewRig(o RigOpts) (*Rig, error) {
	r := &Rig{Opts: o, W: NewWorld(), name: fmt.Sprintf("r%d", atomic.AddInt64(&rigSeq, 1))}
	r.API = &TokAPI{W: r.W}
	var sopts []jsonrpc.ServerOption
	if o.ServerPingOff {
		sopts = append(sopts, jsonrpc.WithServerPingInterval(0))
	} else if o.ServerPing != 0 {
		sopts = append(sopts, jsonrpc.WithServerPingInterval(o.ServerPing))
	}
	if o.Reverse {
		sopts = append(sopts, jsonrpc.WithReverseClient[RevClient]("Rev"))
	}
	if o.WithErrors {
		sopts = append(sopts, jsonrpc.WithServerErrors(jsonrpc.NewErrors()))
	}
	if o.ServerMaxReq > 0 {
		sopts = append(sopts, jsonrpc.WithMaxRequestSize(o.ServerMaxReq))
	}
	r.RPC = jsonrpc.NewServer(sopts...)
	r.RPC.Register("Tok", r.API)
	r.RPC.AliasMethod("Tok.SubVia", "Tok.Sub")
	var h http.Handler = r.RPC
	if o.DetachCtx {
		h = http.HandlerFunc(func(w http.ResponseWriter, req *http.Request) {
			r.RPC.ServeHTTP(w, req.WithContext(context.WithoutCancel(req.Context())))
		})
	}
	r.Srv = httptest.NewUnstartedServer(h)
	var base context.Context
	base, r.srvCancel = context.WithCancel(context.Background())
	r.Srv.Config.BaseContext = func(net.Listener) context.Context { return base }
	r.Srv.Start()
	if !o.NoProxy {
		p, err := NewProxy(r.Srv.Listener.Addr().String())
		if err != nil {
			return nil, err
		}
		r.Proxy = p
	}
	return r, nil
}

func (r *Rig) Addr() string {
	if r.Proxy != nil {
		return r.Proxy.Addr()
	}
	return r.Srv.Listener.Addr().String()
}

func (r *Rig) NewClient(id string) (*RigClient, error) {
	o := r.Opts
	c := &RigClient{Dial: &DialCtl{}, ID: id}
	opts := []jsonrpc.Option{jsonrpc.VerifWithConnFactoryWrapper(c.Dial.wrap)}
	if o.ClientTimeout != 0 {
		opts = append(opts, jsonrpc.WithTimeout(o.ClientTimeout))
	}
	if o.ClientPingOff {
		opts = append(opts, jsonrpc.WithPingInterval(0))
	} else if o.ClientPing != 0 {
		opts = append(opts, jsonrpc.WithPingInterval(o.ClientPing))
	}
	if o.BackoffMin != 0 {
		opts = append(opts, jsonrpc.WithReconnectBackoff(o.BackoffMin, o.BackoffMax))
	}
	if o.NoReconnect {
		opts = append(opts, jsonrpc.WithNoReconnect())
	}
	if o.WithErrors {
		opts = append(opts, jsonrpc.WithErrors(jsonrpc.NewErrors()))
	}
	if o.Reverse {
		c.Rev = &RevHandler{ID: id, W: r.W}
		// two handlers under two namespaces, in either option order
		h1, h2 := jsonrpc.WithClientHandler("Rev", c.Rev), jsonrpc.WithClientHandler("Rev2", &RevHandler2{ID: id})
		if id != "" && id[len(id)-1]%2 == 0 {
			h1, h2 = h2, h1
		}
		if SingleRevHandler(id) {
			// every third client has just the one handler
			opts = append(opts, jsonrpc.WithClientHandler("Rev", c.Rev), jsonrpc.WithClientHandlerAlias("rev.alias", "Rev.Aliased"))
		} else {
			opts = append(opts, h1, h2, jsonrpc.WithClientHandlerAlias("rev.alias", "Rev.Aliased"))
		}
	}
	closer, err := jsonrpc.NewMergeClient(context.Background(), "ws://"+r.Addr(), "Tok", []interface{}{&c.C}, nil, opts...)
	if err != nil {
		return nil, err
	}
	c.closer = closer
	r.Clients = append(r.Clients, c)
	return c, nil
}

func (r *Rig) NewHTTPClient(id string) (*RigClient, error) {
	return r.NewHTTPClientVia(id, r.Srv.Listener.Addr().String(), nil)
}

// NewHTTPClientVia creates an http client for addr (e.g. the proxy) with its own connection pool.
func (r *Rig) NewHTTPClientVia(id, addr string, hcl *http.Client) (*RigClient, error) {
	c := &RigClient{ID: id, HTTP: true}
	var opts []jsonrpc.Option
	if r.Opts.HTTPClientTimeout > 0 {
		opts = append(opts, jsonrpc.WithTimeout(r.Opts.HTTPClientTimeout), jsonrpc.WithPingInterval(r.Opts.HTTPClientTimeout/4))
	}
	if hcl != nil {
		opts = append(opts, jsonrpc.WithHTTPClient(hcl))
	}
	if r.Opts.WithErrors {
		opts = append(opts, jsonrpc.WithErrors(jsonrpc.NewErrors()))
	}
	// http clients cannot have channel-returning fields; use a reduced proxy struct
	var hc struct {
		Call   func(ctx context.Context, tok string, plan Plan) (Result, error)
		Notify func(ctx context.Context, tok string, plan Plan) error           `notify:"true"`
		Retry  func(ctx context.Context, tok string, plan Plan) (Result, error) `retry:"true" rpc_method:"Tok.Call"`
		NoCtx  func(tok string, plan Plan) (Result, error)                      `rpc_method:"Tok.Call"`
	}
	closer, err := jsonrpc.NewMergeClient(context.Background(), "http://"+addr, "Tok", []interface{}{&hc}, nil, opts...)
	if err != nil {
		return nil, err
	}
	c.C.Call, c.C.Notify, c.C.Retry, c.C.NoCtx = hc.Call, hc.Notify, hc.Retry, hc.NoCtx
	c.closer = closer
	r.Clients = append(r.Clients, c)
	return c, nil
}

func (r *Rig) Close() {
	r.W.Quit()
	bounded(8*time.Second, func() {
		for _, c := range r.Clients {
			c.Close(2 * time.Second)
		}
		if r.Proxy != nil {
			r.Proxy.Close()
		}
		closeTestServer(r.Srv)
	})
}

func (r *Rig) Tok(prefix string) string {
	return fmt.Sprintf("%s-%s-%d", prefix, r.name, atomic.AddInt64(&r.tokSeq, 1))
}

// SingleRevHandler tells whether the client with this id registers one client-side handler only (no Rev2).
func SingleRevHandler(id string) bool {
	return id != "" && id[len(id)-1]%3 == 0
}

// ---- asynchronous calls -----------------------------------------------------

type Pending struct {
	Kind         string // call | retry | notify | sub | noctx
	Tok          string
	Plan         Plan
	Done         chan struct{}
	Res          Result
	Err          error
	Ch           <-chan Item
	Cancel       context.CancelFunc
	Issued       time.Time
	probes       int
	firstProbeOK time.Time
	overHTTP     bool
}

// mayBeDeclaredLost: three probes round-tripped after the call went quiet. A retry-tagged
// call may legitimately be asleep between two attempts: the sleep in progress when the link
// became healthy (time H) is at most 0.5*(H-issued)+200ms long, so it gets that much patience.
func (p *Pending) mayBeDeclaredLost(now time.Time) bool {
	if p.probes < 3 {
		return false
	}
	if p.overHTTP {
		// no FIFO argument over parallel http connections: a later probe overtaking a response proves
		// nothing, so this is a (generous) bound, not the clock-free rule
		return now.Sub(p.firstProbeOK) >= 5*time.Second
	}
	if p.Kind != "retry" {
		return true
	}
	patience := time.Duration(0.75*float64(p.firstProbeOK.Sub(p.Issued))) + time.Second
	return now.Sub(p.firstProbeOK) >= patience
}

func (p *Pending) Returned() bool {
	select {
	case <-p.Done:
		return true
	default:
		return false
	}
}

// GoPre is Go with a context that is already cancelled when the call is issued.
func (r *Rig) GoPre(c *RigClient, kind, tok string, plan Plan) *Pending {
	return r.goCall(c, kind, tok, plan, true)
}

func (r *Rig) Go(c *RigClient, kind, tok string, plan Plan) *Pending {
	return r.goCall(c, kind, tok, plan, false)
}

func (r *Rig) goCall(c *RigClient, kind, tok string, plan Plan, preCancelled bool) *Pending {
	ctx, cancel := context.WithCancel(context.Background())
	if preCancelled {
		cancel()
	}
	p := &Pending{Kind: kind, Tok: tok, Plan: plan, Done: make(chan struct{}), Cancel: cancel, Issued: time.Now(), overHTTP: c.HTTP}
	go func() {
		defer close(p.Done)
		defer func() {
			if x := recover(); x != nil {
				p.Err = fmt.Errorf("CLIENT-PANIC: %v", x)
			}
		}()
		switch kind {
		case "call":
			if plan.TagFalse {
				p.Res, p.Err = c.C.CallRF(ctx, tok, plan)
			} else {
				p.Res, p.Err = c.C.Call(ctx, tok, plan)
			}
		case "retry":
			if plan.NoCtx {
				p.Res, p.Err = c.C.RetryNoCtx(tok, plan)
			} else {
				p.Res, p.Err = c.C.Retry(ctx, tok, plan)
			}
		case "notify":
			if plan.ViaSub {
				p.Err = c.C.NotifySub(ctx, tok, plan)
			} else {
				p.Err = c.C.Notify(ctx, tok, plan)
			}
			// the usual `defer cancel()` of a caller: the context ends as soon as the notification has been handed over
			cancel()
		case "noctx":
			p.Res, p.Err = c.C.NoCtx(tok, plan)
		case "sub":
			p.Ch, p.Err = c.C.OpenSub(ctx, tok, plan)
		case "mismatch":
			p.Ch, p.Err = c.C.Mismatch(ctx, tok, plan)
		case "rawbad":
			p.Res, p.Err = c.C.RawBad(ctx, jsonrpc.RawParams(`["`+tok+`", {"gate":`))
		}
	}()
	return p
}

// Probe issues a fresh ungated call and reports whether it round-tripped with its own
// result. The call is abandoned after d (a library call does not return on context
// cancellation alone, so a wedged connection must not wedge the harness).
func (r *Rig) Probe(c *RigClient, d time.Duration) error {
	tok := r.Tok("probe")
	p := r.Go(c, "call", tok, Plan{})
	select {
	case <-p.Done:
	case <-time.After(d):
		p.Cancel()
		return errors.New("probe: no answer within " + d.String())
	}
	p.Cancel()
	if p.Err != nil {
		return p.Err
	}
	if p.Res.Tok != tok || p.Res.Echo != expectedEcho(tok) {
		return fmt.Errorf("FOREIGN-RESULT: probe %s got %+v", tok, p.Res)
	}
	return nil
}

// CheckOwn verifies that a returned call carries its own result (or an error).
func (p *Pending) CheckOwn() *Violation {
	if !p.Returned() || p.Err != nil || p.Kind == "notify" || p.Kind == "sub" {
		return nil
	}
	if p.Res.Tok != p.Tok || p.Res.Echo != expectedEcho(p.Tok) {
		return violf("foreign-result", "call %s (%s) returned %+v", p.Tok, p.Kind, truncRes(p.Res))
	}
	if p.Plan.Size > 0 && p.Res.Pad != padFor(p.Tok, p.Plan.Size) {
		return violf("corrupt-result", "call %s returned a padding of %d bytes that differs from what its handler produced (%d bytes)", p.Tok, len(p.Res.Pad), p.Plan.Size)
	}
	return nil
}

func truncRes(r Result) Result {
	if len(r.Pad) > 40 {
		r.Pad = r.Pad[:40] + "..."
	}
	return r
}

// AwaitAll waits for the calls to return. A call is *lost* by the clock-free rule:
// it is outstanding, no handler is running for it, and three later-issued probes have
// round-tripped on the same client. Returns the lost calls and whether the budget
// ran out with calls still outstanding for reasons the rule does not cover.
func (r *Rig) AwaitAll(c *RigClient, calls []*Pending, budget time.Duration) (lost []*Pending, undecided []*Pending) {
	deadline := time.Now().Add(budget)
	for i := 0; i < 20; i++ { // fast path: everything returns within a few ms on a healthy link
		all := true
		for _, p := range calls {
			if !p.Returned() {
				all = false
			}
		}
		if all {
			return nil, nil
		}
		time.Sleep(500 * time.Microsecond)
	}
	for {
		var out []*Pending
		for _, p := range calls {
			if !p.Returned() {
				out = append(out, p)
			}
		}
		if len(out) == 0 {
			return nil, nil
		}
		var cand []*Pending
		for _, p := range out {
			if !r.W.Running(p.Tok) {
				cand = append(cand, p)
			}
		}
		if len(cand) > 0 && c != nil && atomic.LoadInt32(&c.closed) == 0 {
			if err := r.Probe(c, 1500*time.Millisecond); err == nil {
				all := true
				now := time.Now()
				for _, p := range cand {
					if !p.Returned() {
						p.probes++
						if p.firstProbeOK.IsZero() {
							p.firstProbeOK = now
						}
					}
					if !p.mayBeDeclaredLost(now) {
						all = false
					}
				}
				if all {
					// the responses are provably in the client by now; what may still be missing is CPU time for the
					// callers' own goroutines (decoding a large result on a saturated machine): a lost call stays
					// lost, a slow one catches up within this grace period
					for grace := time.Now().Add(2 * time.Second); time.Now().Before(grace); time.Sleep(2 * time.Millisecond) {
						pending := false
						for _, p := range cand {
							if !p.Returned() {
								pending = true
							}
						}
						if !pending {
							break
						}
					}
					for _, p := range cand {
						if !p.Returned() && !r.W.Running(p.Tok) {
							lost = append(lost, p)
						}
					}
					if len(lost) > 0 {
						return lost, nil
					}
				}
			}
		}
		if time.Now().After(deadline) {
			return nil, out
		}
		// wait up to 40 ms for progress before judging again
		for i := 0; i < 40; i++ {
			pending := false
			for _, p := range out {
				if !p.Returned() {
					pending = true
				}
			}
			if !pending {
				break
			}
			time.Sleep(time.Millisecond)
		}
	}
}

// AwaitReturn waits up to d for every call to return (used after the client was closed).
func AwaitReturn(calls []*Pending, d time.Duration) []*Pending {
	deadline := time.After(d)
	var out []*Pending
	for _, p := range calls {
		select {
		case <-p.Done:
		case <-deadline:
			for _, q := range calls {
				if !q.Returned() {
					out = append(out, q)
				}
			}
			return out
		}
	}
	return nil
}

// drain reads a subscription channel until it closes or d elapses; closed reports the close.
func drain(ch <-chan Item, d time.Duration) (items []Item, closed bool) {
	t := time.NewTimer(d)
	defer t.Stop()
	for {
		select {
		case it, ok := <-ch:
			if !ok {
				return items, true
			}
			items = append(items, it)
		case <-t.C:
			return items, false
		}
	}
}
