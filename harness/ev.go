package harness

// Evidence recorder, violation reporting, known-findings lookup, case journal
// and replay plumbing shared by every property check.

import (
	"encoding/json"
	"flag"
	"fmt"
	"hash/fnv"
	"os"
	"path/filepath"
	"runtime/debug"
	"sort"
	"strconv"
	"strings"
	"sync"
	"sync/atomic"
	"testing"
	"time"

	"pgregory.net/rapid"
)

// Violation is what an oracle returns when a case contradicts the property.
// Key names the failing input class / call site / history (it is what
// known_findings.json is matched against); Msg is the human-readable detail.
type Violation struct {
	Key string `json:"key"`
	Msg string `json:"msg"`
}

func violf(key, format string, a ...interface{}) *Violation {
	return &Violation{Key: key, Msg: fmt.Sprintf(format, a...)}
}

type failer interface {
	Fatalf(format string, args ...interface{})
}

type knownEntry struct {
	Property string `json:"property"`
	Key      string `json:"key"`
	Status   string `json:"status"`
	Commit   string `json:"commit,omitempty"`
	What     string `json:"what"`
}

type failRec struct {
	Property string          `json:"property"`
	Key      string          `json:"key"`
	Msg      string          `json:"msg"`
	Case     json.RawMessage `json:"case"`
	Extra    json.RawMessage `json:"extra,omitempty"`
}

type sample struct {
	h uint64
	j json.RawMessage
}

// Rec accumulates what one test process covered for one property.
type Rec struct {
	Prop string
	Rule string

	mu          sync.Mutex
	evals       int64
	nt          map[uint64]struct{}
	classes     map[string]int64
	first       []json.RawMessage
	low         []sample // the 5 non-trivial descriptors with the smallest hash (deterministic "reservoir")
	knownHit    map[string]int64
	excluded    int64
	lastFail    *failRec
	nFail       int
	exhaustive  *bool
	assumptions []string
	extra       map[string]interface{}
	known       map[string]knownEntry
	start       time.Time
	journal     string
	required    []string
	truncated   []string
}

func tier() string {
	if v := os.Getenv("VERIF_TIER"); v != "" {
		return v
	}
	return "quick"
}

func thorough() bool { return tier() == "thorough" }

func envInt(name string, def int) int {
	if v := os.Getenv(name); v != "" {
		if n, err := strconv.Atoi(v); err == nil {
			return n
		}
	}
	return def
}

// shard returns (index, count) for thorough runs split across processes.
func shard() (int, int) {
	return envInt("VERIF_SHARD", 0), envInt("VERIF_NSHARDS", 1)
}

// scale picks a size by tier.
func scale(quick, thor int) int {
	if thorough() {
		return thor
	}
	return quick
}

func NewRec(prop, rule string) *Rec {
	r := &Rec{
		Prop:     prop,
		Rule:     rule,
		nt:       map[uint64]struct{}{},
		classes:  map[string]int64{},
		knownHit: map[string]int64{},
		extra:    map[string]interface{}{},
		known:    map[string]knownEntry{},
		start:    time.Now(),
	}
	if p := os.Getenv("VERIF_KNOWN"); p != "" {
		if b, err := os.ReadFile(p); err == nil {
			var f struct {
				Findings []knownEntry `json:"findings"`
			}
			if json.Unmarshal(b, &f) == nil {
				for _, e := range f.Findings {
					if e.Property == prop && e.Status == "known" {
						r.known[e.Key] = e
					}
				}
			}
		}
	}
	return r
}

// EnableJournal turns on the pre-case journal (one small file write per case);
// used by the checks whose failure mode is a crash of the whole process.
func (r *Rec) EnableJournal() { r.journal = os.Getenv("VERIF_JOURNAL") }

// IsKnown reports whether key is listed as a known (unrepaired) finding, so a
// generator can exclude that class by construction.
func (r *Rec) IsKnown(key string) bool {
	_, ok := r.known[key]
	return ok
}

func (r *Rec) Excluded() {
	r.mu.Lock()
	r.excluded++
	r.mu.Unlock()
}

func (r *Rec) Assume(s string) {
	r.mu.Lock()
	defer r.mu.Unlock()
	for _, a := range r.assumptions {
		if a == s {
			return
		}
	}
	r.assumptions = append(r.assumptions, s)
}

func (r *Rec) Exhaustive(v bool) {
	r.mu.Lock()
	r.exhaustive = &v
	r.mu.Unlock()
}

func (r *Rec) SetExtra(k string, v interface{}) {
	r.mu.Lock()
	r.extra[k] = v
	r.mu.Unlock()
}

// RequireClass makes the run inconclusive (exit 2) when the named class never
// occurred: a generator that stopped producing the interesting shape is a
// harness bug, not a pass.
func (r *Rec) RequireClass(names ...string) {
	r.required = append(r.required, names...)
}

func mustJSON(v interface{}) json.RawMessage {
	b, err := json.Marshal(v)
	if err != nil {
		b, _ = json.Marshal(fmt.Sprintf("unmarshalable descriptor %T: %v", v, err))
	}
	return b
}

func hash64(b []byte) uint64 {
	h := fnv.New64a()
	h.Write(b)
	return h.Sum64()
}

// Begin journals the descriptor of the case that is about to run, so that a
// crash of the test process can still be attributed to an input.
func (r *Rec) Begin(desc interface{}) {
	if r.journal == "" {
		return
	}
	b, _ := json.Marshal(failRec{Property: r.Prop, Key: "process-crash", Msg: "the test process died while this case was running", Case: mustJSON(desc)})
	_ = os.WriteFile(r.journal, b, 0o644)
}

// Case counts one executed case.
func (r *Rec) Case(desc interface{}, nontrivial bool, classes ...string) {
	j := mustJSON(desc)
	h := hash64(j)
	r.mu.Lock()
	defer r.mu.Unlock()
	r.evals++
	for _, c := range classes {
		if c != "" {
			r.classes[c]++
		}
	}
	if nontrivial {
		r.classes["nontrivial"]++
		if _, dup := r.nt[h]; !dup {
			r.nt[h] = struct{}{}
			if len(r.first) < 3 {
				r.first = append(r.first, j)
			} else {
				r.low = append(r.low, sample{h, j})
				sort.Slice(r.low, func(a, b int) bool { return r.low[a].h < r.low[b].h })
				if len(r.low) > 5 {
					r.low = r.low[:5]
				}
			}
		}
	}
}

// Class bumps a class counter without counting a case.
func (r *Rec) Class(name string, n int64) {
	r.mu.Lock()
	r.classes[name] += n
	r.mu.Unlock()
}

// Report handles the oracle's verdict for one case. A violation listed as a
// known finding is counted and does not fail the run; any other violation is
// remembered (the last one rapid re-runs is the minimal one) and fails t.
func (r *Rec) Report(t failer, desc interface{}, v *Violation, extra ...interface{}) {
	if v == nil {
		return
	}
	r.mu.Lock()
	if _, ok := r.known[v.Key]; ok {
		r.knownHit[v.Key]++
		r.mu.Unlock()
		return
	}
	fr := &failRec{Property: r.Prop, Key: v.Key, Msg: v.Msg, Case: mustJSON(desc)}
	if len(extra) > 0 {
		fr.Extra = mustJSON(extra[0])
	}
	r.lastFail = fr
	r.nFail++
	if jp := os.Getenv("VERIF_JOURNAL"); jp != "" {
		// survives a later hang or crash of the process (Finish turns it into the proper replay file)
		b, _ := json.Marshal(fr)
		_ = os.WriteFile(jp+".fail", b, 0o644)
	}
	r.mu.Unlock()
	t.Fatalf("violation key=%s: %s", v.Key, v.Msg)
}

// Run is the usual per-case sequence: journal, execute, count, judge.
func (r *Rec) Run(t failer, desc interface{}, nontrivial bool, classes []string, run func() *Violation) {
	r.Begin(desc)
	v := safeRun(run)
	r.Case(desc, nontrivial, classes...)
	r.Report(t, desc, v)
}

// safeRun turns a panic that travels out of library code into the harness goroutine (e.g. out of an in-process
// HandleRequest or a client function) into a violation: in a real program it would have taken the caller down.
func safeRun(run func() *Violation) (v *Violation) {
	defer func() {
		if x := recover(); x != nil {
			stack := string(debug.Stack())
			if !strings.Contains(stack, "filecoin-project/go-jsonrpc") && !strings.Contains(stack, "/repo/") {
				panic(x) // not the library's: a defect of the harness itself
			}
			v = violf("library-panic-reaches-caller", "a panic travelled out of the library into its caller: %v; stack: %s", x, trunc(stack, 1200))
		}
	}()
	return run()
}

// Rapid runs a rapid property as a sub-test so that Finish still executes after
// rapid has failed the (sub-)test.
func (r *Rec) Rapid(t *testing.T, name string, prop func(*rapid.T)) bool {
	want := 100
	if f := flag.Lookup("rapid.checks"); f != nil {
		if n, err := strconv.Atoi(f.Value.String()); err == nil {
			want = n
		}
	}
	var ran int64
	ok := t.Run(name, func(t *testing.T) {
		rapid.Check(t, func(rt *rapid.T) {
			atomic.AddInt64(&ran, 1)
			prop(rt)
		})
	})
	// rapid stops quietly when the `go test` deadline approaches and still reports success: a run that was
	// cut short must not pass for a complete one
	if ok && int(atomic.LoadInt64(&ran)) < want {
		r.mu.Lock()
		r.truncated = append(r.truncated, fmt.Sprintf("%s: %d of %d cases before the time limit", name, ran, want))
		r.mu.Unlock()
	}
	return ok
}

type statsFile struct {
	Property    string                 `json:"property"`
	Evals       int64                  `json:"evals"`
	NT          []string               `json:"nt"`
	Classes     map[string]int64       `json:"classes"`
	Samples     []json.RawMessage      `json:"samples"`
	KnownHit    map[string]int64       `json:"known_hit"`
	KnownWhat   map[string]string      `json:"known_what"`
	Excluded    int64                  `json:"excluded"`
	Exhaustive  *bool                  `json:"exhaustive,omitempty"`
	Assumptions []string               `json:"assumptions"`
	Extra       map[string]interface{} `json:"extra"`
	Rule        string                 `json:"rule"`
	WallS       float64                `json:"wall_s"`
	Violations  int                    `json:"violations"`
	Missing     []string               `json:"missing_classes"`
}

// Finish writes the stats file for the driver and, if a violation was seen, the
// replay file plus the line the driver looks for.
func (r *Rec) Finish(t *testing.T) {
	r.mu.Lock()
	defer r.mu.Unlock()

	sf := statsFile{
		Property: r.Prop, Evals: r.evals, Classes: r.classes, KnownHit: r.knownHit, KnownWhat: map[string]string{},
		Excluded: r.excluded, Exhaustive: r.exhaustive, Assumptions: r.assumptions, Extra: r.extra, Rule: r.Rule,
		WallS: time.Since(r.start).Seconds(),
	}
	for k := range r.knownHit {
		sf.KnownWhat[k] = r.known[k].What
	}
	for h := range r.nt {
		sf.NT = append(sf.NT, strconv.FormatUint(h, 16))
	}
	sort.Strings(sf.NT)
	sf.Samples = append(sf.Samples, r.first...)
	for _, s := range r.low {
		sf.Samples = append(sf.Samples, s.j)
	}
	for _, c := range r.required {
		if r.classes[c] == 0 {
			sf.Missing = append(sf.Missing, c)
		}
	}
	if r.lastFail != nil {
		sf.Violations = 1
		dir := os.Getenv("VERIF_REPLAYDIR")
		if dir == "" {
			dir = filepath.Join(os.TempDir(), "verif-replays")
		}
		dir = filepath.Join(dir, r.Prop)
		_ = os.MkdirAll(dir, 0o755)
		b, _ := json.MarshalIndent(r.lastFail, "", " ")
		name := fmt.Sprintf("%s-%016x.json", sanitize(r.lastFail.Key), hash64(r.lastFail.Case))
		p := filepath.Join(dir, name)
		_ = os.WriteFile(p, b, 0o644)
		fmt.Printf("\nVERIF-VIOLATION property=%s key=%s replay=%s msg=%s\n", r.Prop, r.lastFail.Key, p, oneLine(r.lastFail.Msg))
	}
	if p := os.Getenv("VERIF_STATS"); p != "" {
		b, _ := json.Marshal(sf)
		if err := os.WriteFile(p, b, 0o644); err != nil {
			t.Logf("writing stats: %v", err)
		}
	}
	if r.journal != "" {
		_ = os.Remove(r.journal)
	}
	if jp := os.Getenv("VERIF_JOURNAL"); jp != "" {
		_ = os.Remove(jp + ".fail")
	}
	if len(r.truncated) > 0 && r.lastFail == nil {
		fmt.Printf("\nVERIF-INCONCLUSIVE property=%s time limit reached: %v\n", r.Prop, r.truncated)
	}
	if len(sf.Missing) > 0 && r.lastFail == nil {
		fmt.Printf("\nVERIF-INCONCLUSIVE property=%s generator never produced class(es) %v\n", r.Prop, sf.Missing)
	}
}

func sanitize(s string) string {
	var b strings.Builder
	for _, c := range s {
		if c >= 'a' && c <= 'z' || c >= 'A' && c <= 'Z' || c >= '0' && c <= '9' || c == '-' || c == '_' {
			b.WriteRune(c)
		} else {
			b.WriteByte('_')
		}
	}
	if b.Len() > 60 {
		return b.String()[:60]
	}
	return b.String()
}

func oneLine(s string) string {
	s = strings.ReplaceAll(s, "\n", " | ")
	if len(s) > 600 {
		s = s[:600] + "..."
	}
	return s
}

// Replay loads the descriptor named by VERIF_REPLAY and re-executes it with
// run, up to `repeat` times (schedule-dependent cases); it prints the
// VERIF-VIOLATION line again if the violation reproduces.
func Replay(t *testing.T, prop string, repeat int, run func(raw json.RawMessage) *Violation) {
	p := os.Getenv("VERIF_REPLAY")
	if p == "" {
		t.Skip("VERIF_REPLAY not set")
	}
	b, err := os.ReadFile(p)
	if err != nil {
		t.Fatalf("reading replay file: %v", err)
	}
	var fr failRec
	if err := json.Unmarshal(b, &fr); err != nil {
		t.Fatalf("parsing replay file: %v", err)
	}
	if fr.Property != prop {
		t.Skipf("replay file is for %s", fr.Property)
	}
	for i := 0; i < repeat; i++ {
		if v := run(fr.Case); v != nil {
			fmt.Printf("\nVERIF-VIOLATION property=%s key=%s replay=%s msg=%s\n", prop, v.Key, p, oneLine(v.Msg))
			t.Fatalf("reproduced on attempt %d: key=%s %s", i+1, v.Key, v.Msg)
		}
	}
	fmt.Printf("\nVERIF-REPLAY-OK property=%s attempts=%d\n", prop, repeat)
}

// closeTestServer shuts a httptest server down without waiting for handlers that
// a broken tree may have left blocked for ever.
func closeTestServer(s interface {
	CloseClientConnections()
	Close()
}) {
	done := make(chan struct{})
	go func() {
		s.CloseClientConnections()
		s.Close()
		close(done)
	}()
	select {
	case <-done:
	case <-time.After(3 * time.Second):
	}
}

// bounded runs fn but gives up waiting after d (fn keeps running in the background).
func bounded(d time.Duration, fn func()) bool {
	done := make(chan struct{})
	go func() {
		defer close(done)
		fn()
	}()
	select {
	case <-done:
		return true
	case <-time.After(d):
		return false
	}
}

// Regress replays the saved minimal failing cases of earlier findings (regress/<ID>/*.json, the same
// format as replay files) through the property's own runner before any generation starts: a defect
// that returns is reported deterministically and within seconds.
func (r *Rec) Regress(t *testing.T, run func(raw json.RawMessage) *Violation) {
	dir := os.Getenv("VERIF_REGRESS")
	if dir == "" {
		return
	}
	files, _ := filepath.Glob(filepath.Join(dir, r.Prop, "*.json"))
	sort.Strings(files)
	t.Run("regress", func(t *testing.T) {
		for _, f := range files {
			b, err := os.ReadFile(f)
			if err != nil {
				continue
			}
			var fr failRec
			if json.Unmarshal(b, &fr) != nil || fr.Property != r.Prop || len(fr.Case) == 0 {
				continue
			}
			var desc interface{}
			_ = json.Unmarshal(fr.Case, &desc)
			r.Begin(desc)
			v := run(fr.Case)
			if v != nil {
				// schedule-dependent cases get a second look before they count
				if v2 := run(fr.Case); v2 == nil {
					v = nil
				}
			}
			r.Case(desc, true, "regress_case")
			r.Report(t, desc, v)
		}
	})
}
