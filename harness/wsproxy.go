package harness

// Frame-aware TCP proxy between a library client and a server: passes the HTTP
// upgrade, parses RFC 6455 frames in both directions (validating framing and
// reassembling fragmented messages), keeps a wire log, and injects connection
// faults at chosen byte positions of chosen frames.

import (
	"bufio"
	"bytes"
	"encoding/binary"
	"fmt"
	"io"
	"net"
	"strings"
	"sync"
	"sync/atomic"
	"time"
	"unicode/utf8"
)

type Fault struct {
	Conn  int    `json:"conn"`  // connection index at the proxy (-1 = any)
	Dir   string `json:"dir"`   // "c2s" | "s2c"
	Frame int    `json:"frame"` // index of the non-control wire frame in that direction on that connection
	Pos   string `json:"pos"`   // before | header | mid | last | after
	Kind  string `json:"kind"`  // fin | rst | blackhole

	fired int32
}

type WireMsg struct {
	Seq     int64
	Conn    int
	Dir     string
	Opcode  int // 1 text, 2 binary, 8 close, 9 ping, 10 pong
	Payload []byte
	Frames  int // number of wire frames the message was split into
}

type Proxy struct {
	ln     net.Listener
	target string

	mu       sync.Mutex
	policy   string // forward | reject
	conns    []*pconn
	faults   []*Fault
	log      []WireMsg
	accepts  []time.Time
	framing  []string // framing violations
	seq      int64
	fired    chan *Fault
	closed   bool
	keepLog  bool
	rejected int
}

type pconn struct {
	p          *Proxy
	idx        int
	wmu        sync.Mutex // serialises writes towards the server (pump + injected frames)
	cli, srv   net.Conn
	blackholed int32
	stalled    int32 // the proxy stops reading in both directions: TCP back-pressure builds up at the senders
	dead       int32
	frames     map[string]int
	c2sOpen    bool     // (under wmu) the client is in the middle of a fragmented message
	injectQ    [][]byte // (under wmu) frames to inject towards the server at the next message boundary
	armDir     string   // StallAfterBytes: direction watched ...
	armLeft    int64    // ... payload bytes still to pass before the stall (0 = not armed)
	armCh      chan struct{}
}

func NewProxy(target string) (*Proxy, error) {
	ln, err := net.Listen("tcp", "127.0.0.1:0")
	if err != nil {
		return nil, err
	}
	p := &Proxy{ln: ln, target: target, policy: "forward", fired: make(chan *Fault, 64), keepLog: true}
	go p.acceptLoop()
	return p, nil
}

func (p *Proxy) Addr() string { return p.ln.Addr().String() }

func (p *Proxy) SetPolicy(s string) {
	p.mu.Lock()
	p.policy = s
	p.mu.Unlock()
}

func (p *Proxy) AddFault(f *Fault) {
	p.mu.Lock()
	p.faults = append(p.faults, f)
	p.mu.Unlock()
}

func (p *Proxy) ClearFaults() {
	p.mu.Lock()
	p.faults = nil
	p.mu.Unlock()
}

// WaitFault waits until some fault fired.
func (p *Proxy) WaitFault(d time.Duration) *Fault {
	select {
	case f := <-p.fired:
		return f
	case <-time.After(d):
		return nil
	}
}

func (p *Proxy) Accepts() []time.Time {
	p.mu.Lock()
	defer p.mu.Unlock()
	return append([]time.Time{}, p.accepts...)
}

func (p *Proxy) ConnCount() int {
	p.mu.Lock()
	defer p.mu.Unlock()
	return len(p.conns)
}

func (p *Proxy) LiveConns() int {
	p.mu.Lock()
	defer p.mu.Unlock()
	n := 0
	for _, c := range p.conns {
		if atomic.LoadInt32(&c.dead) == 0 && atomic.LoadInt32(&c.blackholed) == 0 {
			n++
		}
	}
	return n
}

func (p *Proxy) Log() []WireMsg {
	p.mu.Lock()
	defer p.mu.Unlock()
	return append([]WireMsg{}, p.log...)
}

func (p *Proxy) ResetLog() {
	p.mu.Lock()
	p.log = nil
	p.mu.Unlock()
}

func (p *Proxy) FramingViolations() []string {
	p.mu.Lock()
	defer p.mu.Unlock()
	return append([]string{}, p.framing...)
}

// FrameCounts returns, per connection index, the number of non-control wire frames seen in each direction.
func (p *Proxy) FrameCounts() []map[string]int {
	p.mu.Lock()
	defer p.mu.Unlock()
	out := make([]map[string]int, len(p.conns))
	for i, c := range p.conns {
		out[i] = map[string]int{"c2s": c.frames["c2s"], "s2c": c.frames["s2c"]}
	}
	return out
}

// CutAll applies a fault of the given kind to every live connection right now.
func (p *Proxy) CutAll(kind string) {
	p.mu.Lock()
	cs := append([]*pconn{}, p.conns...)
	p.mu.Unlock()
	for _, c := range cs {
		c.kill(kind)
	}
}

func (p *Proxy) Close() {
	p.mu.Lock()
	p.closed = true
	cs := append([]*pconn{}, p.conns...)
	p.mu.Unlock()
	p.ln.Close()
	for _, c := range cs {
		c.kill("rst")
	}
}

func (p *Proxy) acceptLoop() {
	for {
		c, err := p.ln.Accept()
		if err != nil {
			return
		}
		p.mu.Lock()
		p.accepts = append(p.accepts, time.Now())
		pol := p.policy
		if strings.HasPrefix(pol, "reject") {
			p.rejected++
		}
		p.mu.Unlock()
		if pol == "reject-http503" || pol == "reject-http200" {
			// the dial reaches something that speaks HTTP but is not (yet) the service: a gateway answering 503, or a
			// plain 200 page, instead of the protocol switch
			go func(c net.Conn) {
				defer c.Close()
				c.SetDeadline(time.Now().Add(2 * time.Second))
				br := bufio.NewReader(c)
				for {
					line, err := br.ReadString('\n')
					if err != nil || len(line) <= 2 {
						break
					}
				}
				if pol == "reject-http503" {
					c.Write([]byte("HTTP/1.1 503 Service Unavailable\r\nContent-Type: text/plain\r\nContent-Length: 12\r\nConnection: close\r\n\r\nstarting up\n"))
				} else {
					c.Write([]byte("HTTP/1.1 200 OK\r\nContent-Type: text/html\r\nContent-Length: 7\r\nConnection: close\r\n\r\n<html>\n"))
				}
			}(c)
			continue
		}
		if pol == "reject" {
			if tc, ok := c.(*net.TCPConn); ok {
				tc.SetLinger(0)
			}
			c.Close()
			continue
		}
		s, err := net.DialTimeout("tcp", p.target, 2*time.Second)
		if err != nil {
			c.Close()
			continue
		}
		// fixed, modest receive buffers (no autotuning up to tens of megabytes): when the proxy stops reading, the
		// senders' writes really do block after a few hundred kilobytes
		for _, x := range []net.Conn{c, s} {
			if tc, ok := x.(*net.TCPConn); ok {
				tc.SetReadBuffer(256 * 1024)
			}
		}
		pc := &pconn{p: p, cli: c, srv: s, frames: map[string]int{}}
		p.mu.Lock()
		pc.idx = len(p.conns)
		p.conns = append(p.conns, pc)
		p.mu.Unlock()
		go pc.pump("c2s", c, s)
		go pc.pump("s2c", s, c)
	}
}

func (pc *pconn) kill(kind string) {
	switch kind {
	case "blackhole":
		atomic.StoreInt32(&pc.blackholed, 1)
		return
	case "stall":
		atomic.StoreInt32(&pc.stalled, 1)
		return
	case "wsclose":
		// a polite peer: a WebSocket close frame (status 1000) towards the client, then the connection is closed
		if !atomic.CompareAndSwapInt32(&pc.dead, 0, 1) {
			return
		}
		pc.cli.Write([]byte{0x88, 0x02, 0x03, 0xE8})
		time.Sleep(2 * time.Millisecond)
		pc.cli.Close()
		pc.srv.Close()
	case "rst":
		if !atomic.CompareAndSwapInt32(&pc.dead, 0, 1) {
			return
		}
		for _, c := range []net.Conn{pc.cli, pc.srv} {
			if tc, ok := c.(*net.TCPConn); ok {
				tc.SetLinger(0)
			}
			c.Close()
		}
	default: // fin
		if !atomic.CompareAndSwapInt32(&pc.dead, 0, 1) {
			return
		}
		pc.cli.Close()
		pc.srv.Close()
	}
}

func (pc *pconn) faultFor(dir string, frame int) *Fault {
	pc.p.mu.Lock()
	defer pc.p.mu.Unlock()
	for _, f := range pc.p.faults {
		if atomic.LoadInt32(&f.fired) == 0 && f.Dir == dir && f.Frame == frame && (f.Conn < 0 || f.Conn == pc.idx) {
			return f
		}
	}
	return nil
}

// httpBodyFault returns a pending fault with Pos "httpbody" for this connection (plain HTTP responses).
func (pc *pconn) httpBodyFault() *Fault {
	pc.p.mu.Lock()
	defer pc.p.mu.Unlock()
	for _, f := range pc.p.faults {
		if atomic.LoadInt32(&f.fired) == 0 && f.Pos == "httpbody" && (f.Conn < 0 || f.Conn == pc.idx) {
			return f
		}
	}
	return nil
}

func (pc *pconn) fire(f *Fault) {
	if !atomic.CompareAndSwapInt32(&f.fired, 0, 1) {
		return
	}
	pc.kill(f.Kind)
	select {
	case pc.p.fired <- f:
	default:
	}
}

func (pc *pconn) write(dst net.Conn, b []byte) bool {
	if atomic.LoadInt32(&pc.blackholed) == 1 {
		return true // swallowed
	}
	if len(b) == 0 {
		return true
	}
	if dst == pc.srv {
		pc.wmu.Lock()
		defer pc.wmu.Unlock()
	}
	_, err := dst.Write(b)
	return err == nil
}

// InjectEmptyFrame writes an empty (masked) text frame towards the server on every live connection, as a
// peer other than the library's own client might.
func (p *Proxy) InjectEmptyFrame() {
	p.mu.Lock()
	cs := append([]*pconn{}, p.conns...)
	p.mu.Unlock()
	for _, pc := range cs {
		if atomic.LoadInt32(&pc.dead) == 0 {
			pc.write(pc.srv, []byte{0x81, 0x80, 1, 2, 3, 4})
		}
	}
}

// KeepLog switches the message log on or off (long, chatty scenarios do not need it).
func (p *Proxy) KeepLog(on bool) {
	p.mu.Lock()
	p.keepLog = on
	p.mu.Unlock()
}

// InjectClientFrame sends a complete (masked, unfragmented) text message towards the server on every live connection,
// between two of the real client's messages: what a peer other than the library's own client might send.
func (p *Proxy) InjectClientFrame(text string) {
	b := []byte{0x81}
	n := len(text)
	switch {
	case n < 126:
		b = append(b, 0x80|byte(n))
	case n < 65536:
		b = append(b, 0x80|126, byte(n>>8), byte(n))
	default:
		return
	}
	b = append(b, 0, 0, 0, 0) // mask key 0: payload bytes unchanged
	b = append(b, text...)
	p.mu.Lock()
	cs := append([]*pconn{}, p.conns...)
	p.mu.Unlock()
	for _, pc := range cs {
		if atomic.LoadInt32(&pc.dead) != 0 || atomic.LoadInt32(&pc.blackholed) != 0 {
			continue
		}
		pc.wmu.Lock()
		if pc.c2sOpen {
			pc.injectQ = append(pc.injectQ, b)
		} else {
			pc.srv.Write(b)
		}
		pc.wmu.Unlock()
	}
}

// InjectPartialFrame writes the first fragment (FIN=0) of a text message towards the server and never completes it.
func (p *Proxy) InjectPartialFrame() {
	p.mu.Lock()
	cs := append([]*pconn{}, p.conns...)
	p.mu.Unlock()
	for _, pc := range cs {
		if atomic.LoadInt32(&pc.dead) == 0 {
			// opcode text, FIN=0, masked, 5 payload bytes `{"a":` xor mask 0
			pc.write(pc.srv, []byte{0x01, 0x85, 0, 0, 0, 0, '{', '"', 'a', '"', ':'})
		}
	}
}

// StallAfterBytes arms every current connection: once n payload bytes have passed in direction dir ("c2s"/"s2c"),
// the connection stalls (as with CutAll("stall")) and the returned channel is closed. This pauses the path in the
// middle of a large transfer no matter how long the sender took to start writing.
func (p *Proxy) StallAfterBytes(dir string, n int) <-chan struct{} {
	ch := make(chan struct{})
	p.mu.Lock()
	for _, pc := range p.conns {
		pc.armDir, pc.armLeft, pc.armCh = dir, int64(n), ch
	}
	p.mu.Unlock()
	return ch
}

func (pc *pconn) passed(dir string, n int) {
	pc.p.mu.Lock()
	defer pc.p.mu.Unlock()
	if pc.armCh == nil || pc.armDir != dir {
		return
	}
	pc.armLeft -= int64(n)
	if pc.armLeft <= 0 {
		atomic.StoreInt32(&pc.stalled, 1)
		close(pc.armCh)
		pc.armCh = nil
	}
}

// Unstall resumes reading on stalled connections.
func (p *Proxy) Unstall() {
	p.mu.Lock()
	cs := append([]*pconn{}, p.conns...)
	p.mu.Unlock()
	for _, pc := range cs {
		atomic.StoreInt32(&pc.stalled, 0)
	}
}

func (pc *pconn) violation(format string, a ...interface{}) {
	pc.p.mu.Lock()
	if len(pc.p.framing) < 50 {
		pc.p.framing = append(pc.p.framing, fmt.Sprintf("conn %d: ", pc.idx)+fmt.Sprintf(format, a...))
	}
	pc.p.mu.Unlock()
}

func (pc *pconn) pump(dir string, src, dst net.Conn) {
	defer func() {
		// the side that reached EOF/error propagates it (a real network path would too)
		if atomic.LoadInt32(&pc.blackholed) == 0 {
			pc.kill("fin")
		}
	}()
	br := bufio.NewReaderSize(src, 64*1024)
	// HTTP upgrade: pass through up to and including the blank line
	var hs bytes.Buffer
	for {
		line, err := br.ReadBytes('\n')
		hs.Write(line)
		if err != nil {
			pc.write(dst, hs.Bytes())
			return
		}
		if len(line) <= 2 {
			break
		}
		if hs.Len() > 1<<16 {
			break
		}
	}
	if !pc.write(dst, hs.Bytes()) {
		return
	}
	if dir == "s2c" && !bytes.Contains(hs.Bytes(), []byte(" 101 ")) {
		// not upgraded (plain HTTP through the proxy): blind copy, except for a fault that truncates a response
		// body: the headers of the response went out above (hs); forward a few body bytes, then cut
		if f := pc.httpBodyFault(); f != nil {
			few := make([]byte, 5)
			n, _ := io.ReadFull(br, few)
			pc.write(dst, few[:n])
			pc.fire(f)
			return
		}
		io.Copy(dst, br)
		return
	}
	if dir == "c2s" && !bytes.Contains(bytes.ToLower(hs.Bytes()), []byte("upgrade: websocket")) {
		io.Copy(dst, br)
		return
	}

	var msgBuf []byte
	msgOp := 0
	msgFrames := 0
	for {
		for atomic.LoadInt32(&pc.stalled) == 1 && atomic.LoadInt32(&pc.dead) == 0 {
			time.Sleep(time.Millisecond)
		}
		var h [14]byte
		if _, err := io.ReadFull(br, h[:2]); err != nil {
			return
		}
		n := 2
		fin := h[0]&0x80 != 0
		rsv := h[0] & 0x70
		op := int(h[0] & 0x0f)
		masked := h[1]&0x80 != 0
		plen := uint64(h[1] & 0x7f)
		switch plen {
		case 126:
			if _, err := io.ReadFull(br, h[2:4]); err != nil {
				return
			}
			plen = uint64(binary.BigEndian.Uint16(h[2:4]))
			n = 4
		case 127:
			if _, err := io.ReadFull(br, h[2:10]); err != nil {
				return
			}
			plen = binary.BigEndian.Uint64(h[2:10])
			n = 10
		}
		var mask [4]byte
		if masked {
			if _, err := io.ReadFull(br, h[n:n+4]); err != nil {
				return
			}
			copy(mask[:], h[n:n+4])
			n += 4
		}
		if plen > 64<<20 {
			pc.violation("%s frame announces %d payload bytes", dir, plen)
			return
		}
		payload := make([]byte, plen)
		// read in pieces so that a stall also takes effect in the middle of a large frame
		for off := 0; off < len(payload); {
			for atomic.LoadInt32(&pc.stalled) == 1 && atomic.LoadInt32(&pc.dead) == 0 {
				time.Sleep(time.Millisecond)
			}
			end := off + 64<<10
			if end > len(payload) {
				end = len(payload)
			}
			if _, err := io.ReadFull(br, payload[off:end]); err != nil {
				return
			}
			pc.passed(dir, end-off)
			off = end
		}
		// framing validation
		if rsv != 0 {
			pc.violation("%s frame with reserved bits %#x", dir, rsv)
		}
		if dir == "c2s" && !masked {
			pc.violation("client frame is not masked")
		}
		if dir == "s2c" && masked {
			pc.violation("server frame is masked")
		}
		control := op >= 8
		if control && (!fin || plen > 125) {
			pc.violation("%s control frame fragmented or too long (fin=%v len=%d)", dir, fin, plen)
		}
		switch {
		case control:
			if op != 8 && op != 9 && op != 10 {
				pc.violation("%s frame with unknown control opcode %d", dir, op)
			}
		case op == 0:
			if msgOp == 0 {
				pc.violation("%s continuation frame without a started message", dir)
			}
		case op == 1 || op == 2:
			if msgOp != 0 {
				pc.violation("%s data frame (opcode %d) inside a fragmented message", dir, op)
			}
		default:
			pc.violation("%s frame with unknown opcode %d", dir, op)
		}

		frame := append(append([]byte{}, h[:n]...), payload...)
		var flt *Fault
		if !control {
			pc.p.mu.Lock()
			idx := pc.frames[dir]
			pc.frames[dir] = idx + 1
			pc.p.mu.Unlock()
			flt = pc.faultFor(dir, idx)
		}
		if flt != nil {
			cut := len(frame)
			switch flt.Pos {
			case "before":
				cut = 0
			case "header":
				cut = 1
			case "mid":
				cut = n + len(payload)/2
			case "last":
				cut = len(frame) - 1
			}
			pc.write(dst, frame[:cut])
			pc.fire(flt)
			if flt.Kind != "blackhole" {
				return
			}
			continue
		}
		// the frame is logged before it is forwarded: by the time an endpoint has acted on a message, the log holds it
		forward := func() bool {
			if dir == "c2s" && !control {
				// forwarded under the lock that also guards injected frames, which go out at message boundaries only
				pc.wmu.Lock()
				_, werr := dst.Write(frame)
				pc.c2sOpen = !fin
				if fin {
					for _, q := range pc.injectQ {
						dst.Write(q)
					}
					pc.injectQ = nil
				}
				pc.wmu.Unlock()
				return werr == nil
			}
			return pc.write(dst, frame)
		}

		// logging / reassembly
		plain := payload
		if masked {
			plain = make([]byte, len(payload))
			for i := range payload {
				plain[i] = payload[i] ^ mask[i%4]
			}
		}
		if control {
			if op == 8 && msgOp != 0 {
				// control frames may travel between the fragments of a message, but nothing follows a close frame:
				// an endpoint that sends one while its own message is unfinished has torn that message
				pc.violation("%s close frame sent in the middle of the sender's own unfinished message (%d fragments, %d bytes so far)", dir, msgFrames, len(msgBuf))
			}
			pc.logMsg(dir, op, plain, 1)
			if !forward() {
				return
			}
			continue
		}
		if op != 0 {
			msgOp = op
			msgBuf = nil
			msgFrames = 0
		}
		msgBuf = append(msgBuf, plain...)
		msgFrames++
		if fin {
			if msgOp == 1 && !utf8.Valid(msgBuf) {
				pc.violation("%s text message is not valid UTF-8", dir)
			}
			pc.logMsg(dir, msgOp, msgBuf, msgFrames)
			msgOp = 0
			msgBuf = nil
		}
		if !forward() {
			return
		}
	}
}

func (pc *pconn) logMsg(dir string, op int, payload []byte, frames int) {
	if atomic.LoadInt32(&pc.blackholed) == 1 {
		return
	}
	pc.p.mu.Lock()
	if pc.p.keepLog {
		pc.p.seq++
		pc.p.log = append(pc.p.log, WireMsg{Seq: pc.p.seq, Conn: pc.idx, Dir: dir, Opcode: op, Payload: append([]byte{}, payload...), Frames: frames})
	}
	pc.p.mu.Unlock()
}
