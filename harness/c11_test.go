package harness

// C11 - handler errors arrive intact; registered error types round-trip by code.
//
// Generator: error values (plain, pointer-plain, marshalable, codec, failing
// conversions, stdlib) with generated messages/fields x registration tables
// (same, client-only, server-only, disjoint codes, swapped types, none) x method
// shape x transport. Oracle: the error-mapping model of the statement.

import (
	"bytes"
	"context"
	"encoding/json"
	"errors"
	"fmt"
	"golang.org/x/xerrors"
	"io"
	"net/http/httptest"
	"reflect"
	"sync"
	"testing"
	"time"

	jsonrpc "github.com/filecoin-project/go-jsonrpc"
	"pgregory.net/rapid"
)

type PlainErr struct{ Msg string }

func (e PlainErr) Error() string { return e.Msg }

type PtrPlainErr struct{ Msg string }

func (e *PtrPlainErr) Error() string { return e.Msg }

type MetaErr struct {
	Msg    string
	Num    int64
	Detail []string
	Nested *Inner
}

func (e *MetaErr) Error() string { return e.Msg }
func (e *MetaErr) MarshalJSON() ([]byte, error) {
	return json.Marshal(struct {
		M string   `json:"m"`
		N int64    `json:"n"`
		D []string `json:"d"`
		I *Inner   `json:"i"`
	}{e.Msg, e.Num, e.Detail, e.Nested})
}
func (e *MetaErr) UnmarshalJSON(b []byte) error {
	var x struct {
		M string   `json:"m"`
		N int64    `json:"n"`
		D []string `json:"d"`
		I *Inner   `json:"i"`
	}
	if err := json.Unmarshal(b, &x); err != nil {
		return err
	}
	e.Msg, e.Num, e.Detail, e.Nested = x.M, x.N, x.D, x.I
	return nil
}

// MetaValErr: value-receiver Marshal, pointer-receiver Unmarshal, registered in value form.
type MetaValErr struct{ Msg string }

func (e MetaValErr) Error() string                { return e.Msg }
func (e MetaValErr) MarshalJSON() ([]byte, error) { return json.Marshal(map[string]string{"m": e.Msg}) }
func (e *MetaValErr) UnmarshalJSON(b []byte) error {
	var m map[string]string
	if err := json.Unmarshal(b, &m); err != nil {
		return err
	}
	e.Msg = m["m"]
	return nil
}

type CodecErr struct {
	Msg  string
	Data map[string]interface{}
	Code int // 0 = codecErrCode; anything else is a code no table knows
}

const codecErrCode = 5

func (e *CodecErr) Error() string { return e.Msg }
func (e *CodecErr) ToJSONRPCError() (jsonrpc.JSONRPCError, error) {
	code := jsonrpc.ErrorCode(codecErrCode)
	if e.Code != 0 {
		code = jsonrpc.ErrorCode(e.Code)
	}
	return jsonrpc.JSONRPCError{Code: code, Message: e.Msg, Data: e.Data}, nil
}
func (e *CodecErr) FromJSONRPCError(j jsonrpc.JSONRPCError) error {
	e.Msg = j.Message
	if j.Data != nil {
		d, ok := j.Data.(map[string]interface{})
		if !ok {
			return fmt.Errorf("unexpected data %T", j.Data)
		}
		// numeric detail is read the way application code reads a decoded interface{}: as float64
		if v, present := d["n"]; present {
			if _, isFloat := v.(float64); !isFloat {
				return fmt.Errorf("data.n arrived as %T, expected float64", v)
			}
		}
		e.Data = d
	}
	return nil
}

// CodecValErr is registered in VALUE form; its decode method has a pointer receiver (the usual shape),
// so the server sends code + message and the client rebuilds the content through FromJSONRPCError.
type CodecValErr struct {
	Msg  string
	Code int
}

func (e CodecValErr) Error() string { return e.Msg }
func (e CodecValErr) ToJSONRPCError() (jsonrpc.JSONRPCError, error) {
	return jsonrpc.JSONRPCError{Code: 9, Message: e.Msg}, nil
}
func (e *CodecValErr) FromJSONRPCError(j jsonrpc.JSONRPCError) error {
	e.Msg, e.Code = j.Message, int(j.Code)
	return nil
}

// BothErr implements json.Marshaler/Unmarshaler AND RPCErrorCodec; the codec form takes precedence on both sides.
type BothErr struct {
	Msg   string
	Extra string
}

func (e *BothErr) Error() string { return e.Msg }
func (e *BothErr) MarshalJSON() ([]byte, error) {
	return json.Marshal(map[string]string{"meta_msg": e.Msg})
}
func (e *BothErr) UnmarshalJSON(b []byte) error {
	var m map[string]string
	if err := json.Unmarshal(b, &m); err != nil {
		return err
	}
	e.Msg = "from-meta:" + m["meta_msg"]
	return nil
}
func (e *BothErr) ToJSONRPCError() (jsonrpc.JSONRPCError, error) {
	return jsonrpc.JSONRPCError{Code: 10, Message: e.Msg, Data: map[string]interface{}{"extra": e.Extra}}, nil
}
func (e *BothErr) FromJSONRPCError(j jsonrpc.JSONRPCError) error {
	d, ok := j.Data.(map[string]interface{})
	if !ok {
		return errors.New("BothErr: data missing")
	}
	x, _ := d["extra"].(string)
	e.Msg, e.Extra = j.Message, x
	return nil
}

type FailMetaErr struct{ Msg string }

func (e *FailMetaErr) Error() string                { return e.Msg }
func (e *FailMetaErr) MarshalJSON() ([]byte, error) { return json.Marshal(e.Msg) }
func (e *FailMetaErr) UnmarshalJSON([]byte) error   { return errors.New("designed to fail") }

type FailCodecErr struct{ Msg string }

func (e *FailCodecErr) Error() string { return e.Msg }
func (e *FailCodecErr) ToJSONRPCError() (jsonrpc.JSONRPCError, error) {
	return jsonrpc.JSONRPCError{Code: 8, Message: e.Msg}, nil
}
func (e *FailCodecErr) FromJSONRPCError(jsonrpc.JSONRPCError) error {
	return errors.New("designed to fail")
}

// FailToErr is a codec-style error whose own conversion to the wire form fails: the handler's message and the
// generic code must still reach the caller.
type FailToErr struct{ Msg string }

func (e *FailToErr) Error() string { return e.Msg }
func (e *FailToErr) ToJSONRPCError() (jsonrpc.JSONRPCError, error) {
	return jsonrpc.JSONRPCError{}, errors.New("cannot be converted")
}
func (e *FailToErr) FromJSONRPCError(jsonrpc.JSONRPCError) error { return nil }

// registration tables ---------------------------------------------------------

type errReg struct {
	code jsonrpc.ErrorCode
	typ  interface{} // as passed to Errors.Register
	kind string
}

var c11Regs = []errReg{
	{2, new(PlainErr), "plain"},
	{3, new(*PtrPlainErr), "ptrplain"},
	{4, new(*MetaErr), "meta"},
	{codecErrCode, new(*CodecErr), "codec"},
	{6, new(MetaValErr), "metaval"},
	{7, new(*FailMetaErr), "failmeta"},
	{8, new(*FailCodecErr), "failcodec"},
	{9, new(CodecValErr), "codecval"},
	{10, new(*BothErr), "both"},
}

func c11Table(name string, server bool) *jsonrpc.Errors {
	es := jsonrpc.NewErrors()
	switch name {
	case "none":
		return nil
	case "client-only":
		if server {
			return nil
		}
	case "server-only":
		if !server {
			return nil
		}
	}
	for i, r := range c11Regs {
		code := r.code
		typ := r.typ
		if !server {
			switch name {
			case "disjoint":
				code += 10
			case "swapped":
				typ = c11Regs[(i+1)%len(c11Regs)].typ
			}
		}
		es.Register(code, typ)
	}
	return &es
}

var c11TableNames = []string{"same", "client-only", "server-only", "disjoint", "swapped", "none"}

type ErrAPI struct {
	mu      sync.Mutex
	next    error
	runs    int
	byKey   map[string]error
	started chan string
}

func (a *ErrAPI) E(ctx context.Context) error {
	a.mu.Lock()
	defer a.mu.Unlock()
	a.runs++
	return a.next
}
func (a *ErrAPI) VE(ctx context.Context) (int, error) {
	a.mu.Lock()
	defer a.mu.Unlock()
	a.runs++
	return 7, a.next
}

// EK / VEK return the error deposited under key: concurrent callers each get their own.
func (a *ErrAPI) EK(ctx context.Context, key string) error {
	a.mu.Lock()
	defer a.mu.Unlock()
	return a.byKey[key]
}
func (a *ErrAPI) VEK(ctx context.Context, key string) (int, error) {
	a.mu.Lock()
	defer a.mu.Unlock()
	return 7, a.byKey[key]
}

// EC waits until its context is cancelled (the caller cancelled the call) and then returns the error deposited
// under key: a handler reacting to cancellation with an error of its own.
func (a *ErrAPI) EC(ctx context.Context, key string) error {
	a.mu.Lock()
	if a.started != nil {
		select {
		case a.started <- key:
		default:
		}
	}
	a.mu.Unlock()
	select {
	case <-ctx.Done():
	case <-time.After(5 * time.Second):
	}
	a.mu.Lock()
	defer a.mu.Unlock()
	return a.byKey[key]
}

type c11Client struct {
	EC  func(ctx context.Context, key string) error
	E   func(ctx context.Context) error
	VE  func(ctx context.Context) (int, error)
	EK  func(ctx context.Context, key string) error
	VEK func(ctx context.Context, key string) (int, error)
}

type c11Endpoint struct {
	api     *ErrAPI
	srv     *httptest.Server
	clients map[string]*c11Client
	closers []func()
}

type c11Env struct {
	mu  sync.Mutex
	eps map[string]*c11Endpoint
}

func newC11Env() (*c11Env, error) {
	env := &c11Env{eps: map[string]*c11Endpoint{}}
	for _, tn := range c11TableNames {
		ep := &c11Endpoint{api: &ErrAPI{}, clients: map[string]*c11Client{}}
		var sopts []jsonrpc.ServerOption
		if es := c11Table(tn, true); es != nil {
			sopts = append(sopts, jsonrpc.WithServerErrors(*es))
		}
		rpc := jsonrpc.NewServer(sopts...)
		rpc.Register("Err", ep.api)
		ep.srv = httptest.NewServer(rpc)
		var copts []jsonrpc.Option
		if es := c11Table(tn, false); es != nil {
			copts = append(copts, jsonrpc.WithErrors(*es))
		}
		for _, tr := range c01Transports {
			cl := &c11Client{}
			var closer jsonrpc.ClientCloser
			var err error
			switch tr {
			case "ws":
				closer, err = jsonrpc.NewMergeClient(context.Background(), "ws://"+ep.srv.Listener.Addr().String(), "Err", []interface{}{cl}, nil, copts...)
			case "http":
				closer, err = jsonrpc.NewMergeClient(context.Background(), "http://"+ep.srv.Listener.Addr().String(), "Err", []interface{}{cl}, nil, copts...)
			default:
				closer, err = jsonrpc.NewCustomClient("Err", []interface{}{cl}, func(ctx context.Context, body []byte) (io.ReadCloser, error) {
					var buf bytes.Buffer
					rpc.HandleRequest(ctx, bytes.NewReader(body), &buf)
					return io.NopCloser(&buf), nil
				}, copts...)
			}
			if err != nil {
				return nil, err
			}
			ep.clients[tr] = cl
			ep.closers = append(ep.closers, closer)
		}
		env.eps[tn] = ep
	}
	return env, nil
}

func (e *c11Env) Close() { bounded(5*time.Second, e.closeInner) }

func (e *c11Env) closeInner() {
	for _, ep := range e.eps {
		for _, c := range ep.closers {
			c()
		}
		closeTestServer(ep.srv)
	}
}

type c11Case struct {
	Table     string          `json:"table"`
	Transport string          `json:"transport"`
	Shape     string          `json:"shape"` // "E" | "VE"
	Kind      string          `json:"kind"`  // nil | plain | plainptr | ptrplain | meta | metaval | codec | failmeta | failcodec | stdlib | wrapped
	Msg       string          `json:"msg"`
	Num       int64           `json:"num,omitempty"`
	Detail    []string        `json:"detail,omitempty"`
	Nested    *Inner          `json:"nested,omitempty"`
	Data      json.RawMessage `json:"data,omitempty"`      // codec data (object) or null
	Code      int             `json:"code,omitempty"`      // codec: self-supplied code (0 = the registered one)
	Cancelled bool            `json:"cancelled,omitempty"` // the caller cancels the running call; the handler then returns the error (ws)
}

func (c c11Case) build() error {
	switch c.Kind {
	case "nil":
		return nil
	case "plain":
		return PlainErr{c.Msg}
	case "plainptr":
		return &PlainErr{c.Msg} // dynamic type *PlainErr is not what was registered
	case "ptrplain":
		return &PtrPlainErr{c.Msg}
	case "meta":
		return &MetaErr{Msg: c.Msg, Num: c.Num, Detail: c.Detail, Nested: c.Nested}
	case "metaval":
		return MetaValErr{c.Msg}
	case "codec":
		e := &CodecErr{Msg: c.Msg, Code: c.Code}
		if len(c.Data) > 0 && string(c.Data) != "null" {
			_ = json.Unmarshal(c.Data, &e.Data)
		}
		return e
	case "codecval":
		return CodecValErr{Msg: c.Msg}
	case "both":
		return &BothErr{Msg: c.Msg, Extra: "x-" + c.Msg}
	case "failmeta":
		return &FailMetaErr{c.Msg}
	case "failcodec":
		return &FailCodecErr{c.Msg}
	case "failto":
		return &FailToErr{c.Msg}
	case "stdlib":
		return errors.New(c.Msg)
	case "wrapped":
		return fmt.Errorf("wrapped: %w", PlainErr{c.Msg})
	case "formatter":
		return &FormatterErr{c.Msg}
	case "xerrors":
		return xerrors.Errorf("%s", c.Msg)
	}
	return nil
}

// FormatterErr prints itself differently under %+v (as errors carrying a stack trace do); its message is Error().
type FormatterErr struct{ Msg string }

func (e *FormatterErr) Error() string { return e.Msg }
func (e *FormatterErr) Format(f fmt.State, verb rune) {
	if verb == 'v' && f.Flag('+') {
		fmt.Fprintf(f, "%s\n    harness.(*TokAPI).Call\n        /src/fx_world.go:1", e.Msg)
		return
	}
	fmt.Fprint(f, e.Msg)
}

// kindReg returns the registration whose dynamic type equals the built error's.
func kindReg(kind string) *errReg {
	for i := range c11Regs {
		if c11Regs[i].kind == kind {
			return &c11Regs[i]
		}
	}
	return nil
}

func (e *c11Env) run(c c11Case) *Violation {
	e.mu.Lock()
	defer e.mu.Unlock()
	ep := e.eps[c.Table]
	if ep == nil || ep.clients[c.Transport] == nil {
		return nil
	}
	herr := c.build()
	ep.api.mu.Lock()
	ep.api.next = herr
	ep.api.runs = 0
	ep.api.mu.Unlock()

	var got error
	val := 0
	var pan interface{}
	func() {
		defer func() { pan = recover() }()
		if c.Shape == "VE" {
			val, got = ep.clients[c.Transport].VE(context.Background())
		} else {
			got = ep.clients[c.Transport].E(context.Background())
		}
	}()
	if pan != nil {
		return violf("client-panic", "client panicked converting the error: %v", pan)
	}
	if ep.api.runs != 1 {
		return violf("handler-runs", "handler ran %d times", ep.api.runs)
	}
	return c11Judge(c, herr, got, val)
}

// c11Judge compares what the caller got with what the handler returned.
func c11Judge(c c11Case, herr, got error, val int) *Violation {
	if herr == nil {
		if got != nil {
			return violf("spurious-error", "handler returned nil, caller got %T %v", got, got)
		}
		if c.Shape == "VE" && val != 7 {
			return violf("value-lost", "handler returned 7, caller got %d", val)
		}
		return nil
	}
	if got == nil || isNilInside(got) {
		return violf("error-became-nil", "handler returned %T %q, caller got a nil error (%T)", herr, herr.Error(), got)
	}
	if c.Shape == "VE" && val != 0 {
		return violf("nonzero-value-with-error", "handler returned (7, err), caller got value %d next to the error", val)
	}

	reg := kindReg(c.Kind)
	serverHas := c.Table == "same" || c.Table == "server-only" || c.Table == "disjoint" || c.Table == "swapped"
	clientHas := c.Table == "same" || c.Table == "client-only"
	wireCode := jsonrpc.ErrorCode(1)
	if reg != nil && serverHas {
		wireCode = reg.code
	}
	if c.Kind == "codec" {
		wireCode = codecErrCode
		if c.Code != 0 {
			wireCode = jsonrpc.ErrorCode(c.Code)
		}
	}
	if c.Kind == "failcodec" {
		wireCode = 8
	}
	if c.Kind == "both" {
		wireCode = 10 // supplied by the codec form
	}
	clientKnowsCode := false
	switch c.Table {
	case "same", "client-only", "swapped":
		clientKnowsCode = wireCode >= 2 && wireCode <= 10 || wireCode == -1111111
	case "disjoint":
		clientKnowsCode = wireCode >= 12 && wireCode <= 20 || wireCode == -1111111
	}

	generic, isGeneric := got.(*jsonrpc.JSONRPCError)
	if !clientKnowsCode {
		// unregistered on the caller's side: generic error, message and code preserved
		if !isGeneric {
			return violf("unregistered-not-generic", "code %d is not registered on the client, caller got %T", wireCode, got)
		}
		if generic.Message != herr.Error() {
			return violf("message-changed", "handler message %q arrived as %q", herr.Error(), generic.Message)
		}
		if generic.Code != wireCode {
			return violf("code-changed", "wire code %d arrived as %d", wireCode, generic.Code)
		}
		return nil
	}
	if c.Table != "same" && !(c.Table == "client-only" && (c.Kind == "codec" || c.Kind == "failcodec" || c.Kind == "both")) {
		return nil // mismatched tables: only {non-nil, zero value, no panic}
	}
	_ = clientHas
	if reg == nil {
		return nil
	}
	// same registration on both sides (codec errors supply their code themselves)
	switch c.Kind {
	case "failmeta", "failcodec":
		if !isGeneric {
			return violf("failed-conversion-not-generic", "conversion designed to fail must degrade to the generic error, caller got %T", got)
		}
		if generic.Message != herr.Error() {
			return violf("message-changed", "handler message %q arrived as %q", herr.Error(), generic.Message)
		}
		return nil
	}
	wantType := reflect.TypeOf(reg.typ).Elem()
	if reflect.TypeOf(got) != wantType {
		return violf("wrong-error-type", "type %v is registered under code %d on both sides, caller got %T", wantType, wireCode, got)
	}
	switch c.Kind {
	case "meta":
		a, _ := json.Marshal(herr)
		b, _ := json.Marshal(got)
		if string(a) != string(b) {
			return violf("meta-content-changed", "marshalled content changed: sent %s, received %s", a, b)
		}
	case "both":
		if g := got.(*BothErr); g.Msg != c.Msg || g.Extra != "x-"+c.Msg {
			return violf("codec-content-changed", "error implementing both forms: sent {Msg:%q Extra:%q} through its codec, received %+v", c.Msg, "x-"+c.Msg, *g)
		}
	case "codecval":
		if g := got.(CodecValErr); g.Msg != c.Msg || g.Code != 9 {
			return violf("codec-content-changed", "value-registered codec error: sent message %q under code 9, received %+v", c.Msg, g)
		}
	case "codec":
		a, _ := herr.(*CodecErr).ToJSONRPCError()
		b, _ := got.(*CodecErr).ToJSONRPCError()
		ja, _ := json.Marshal(a)
		jb, _ := json.Marshal(b)
		if string(ja) != string(jb) {
			return violf("codec-content-changed", "codec fields changed: sent %s, received %s", ja, jb)
		}
	}
	return nil
}

// runCancelled: the caller cancels a running call; the handler answers the cancellation with the case's error, which
// must reach the caller (who, over WebSocket, keeps waiting for the answer) as intact as any other handler error.
func (e *c11Env) runCancelled(c c11Case) *Violation {
	e.mu.Lock()
	defer e.mu.Unlock()
	ep := e.eps[c.Table]
	if ep == nil || ep.clients["ws"] == nil {
		return nil
	}
	c.Transport, c.Shape = "ws", "E"
	herr := c.build()
	started := make(chan string, 1)
	ep.api.mu.Lock()
	ep.api.byKey = map[string]error{"kc": herr}
	ep.api.started = started
	ep.api.mu.Unlock()
	defer func() {
		ep.api.mu.Lock()
		ep.api.started = nil
		ep.api.mu.Unlock()
	}()
	ctx, cancel := context.WithCancel(context.Background())
	defer cancel()
	type out struct {
		err error
		pan interface{}
	}
	done := make(chan out, 1)
	go func() {
		var o out
		defer func() {
			o.pan = recover()
			done <- o
		}()
		o.err = ep.clients["ws"].EC(ctx, "kc")
	}()
	select {
	case <-started:
	case <-time.After(3 * time.Second):
		return nil
	}
	cancel()
	var o out
	select {
	case o = <-done:
	case <-time.After(5 * time.Second):
		return violf("cancelled-call-hangs", "a call cancelled while running did not return although its handler answered the cancellation")
	}
	if o.pan != nil {
		return violf("client-panic", "client panicked converting the error: %v", o.pan)
	}
	v := c11Judge(c, herr, o.err, 0)
	if v != nil {
		v.Msg = "after the caller cancelled the running call and the handler answered with its own error: " + v.Msg
	}
	return v
}

// c11Conc: several callers use the same proxy function at the same time, each provoking a different error (or none).
type c11Conc struct {
	Table     string    `json:"table"`
	Transport string    `json:"transport"`
	Shape     string    `json:"shape"`
	Rounds    int       `json:"rounds"`
	Items     []c11Case `json:"items"` // kind/msg/... per caller; table, transport and shape are taken from the enclosing case
}

func (e *c11Env) runConc(c c11Conc) *Violation {
	e.mu.Lock()
	defer e.mu.Unlock()
	ep := e.eps[c.Table]
	if ep == nil || ep.clients[c.Transport] == nil {
		return nil
	}
	cl := ep.clients[c.Transport]
	herrs := make([]error, len(c.Items))
	ep.api.mu.Lock()
	ep.api.byKey = map[string]error{}
	for i := range c.Items {
		c.Items[i].Table, c.Items[i].Transport, c.Items[i].Shape = c.Table, c.Transport, c.Shape
		herrs[i] = c.Items[i].build()
		ep.api.byKey[fmt.Sprint("k", i)] = herrs[i]
	}
	ep.api.mu.Unlock()
	var mu sync.Mutex
	var first *Violation
	var wg sync.WaitGroup
	start := make(chan struct{})
	for i := range c.Items {
		wg.Add(1)
		go func(i int) {
			defer wg.Done()
			<-start
			for r := 0; r < c.Rounds; r++ {
				var got error
				val := 0
				var pan interface{}
				func() {
					defer func() { pan = recover() }()
					if c.Shape == "VE" {
						val, got = cl.VEK(context.Background(), fmt.Sprint("k", i))
					} else {
						got = cl.EK(context.Background(), fmt.Sprint("k", i))
					}
				}()
				var v *Violation
				if pan != nil {
					v = violf("client-panic", "client panicked converting the error: %v", pan)
				} else {
					v = c11Judge(c.Items[i], herrs[i], got, val)
				}
				if v != nil {
					v.Msg = fmt.Sprintf("caller %d of %d concurrent callers of one client function (round %d, own error kind %s %q): %s", i, len(c.Items), r, c.Items[i].Kind, c.Items[i].Msg, v.Msg)
					mu.Lock()
					if first == nil {
						first = v
					}
					mu.Unlock()
					return
				}
			}
		}(i)
	}
	close(start)
	wg.Wait()
	return first
}

func isNilInside(err error) bool {
	v := reflect.ValueOf(err)
	return v.Kind() == reflect.Ptr && v.IsNil()
}

var c11Kinds = []string{"nil", "plain", "plainptr", "ptrplain", "meta", "metaval", "codec", "codecval", "both", "failmeta", "failcodec", "failto", "stdlib", "wrapped", "formatter", "xerrors"}

func genC11(t *rapid.T) c11Case {
	msg, _ := genString(t, "msg")
	c := c11Case{
		Table: rapid.SampledFrom(c11TableNames).Draw(t, "table"), Transport: rapid.SampledFrom(c01Transports).Draw(t, "transport"),
		Shape: rapid.SampledFrom([]string{"E", "VE"}).Draw(t, "shape"), Kind: rapid.SampledFrom(c11Kinds).Draw(t, "kind"), Msg: msg,
	}
	switch c.Kind {
	case "meta":
		c.Num = genI64(t, "num")
		switch rapid.IntRange(0, 2).Draw(t, "detailkind") {
		case 1:
			c.Detail = []string{}
		case 2:
			n := rapid.IntRange(1, 3).Draw(t, "ndetail")
			for i := 0; i < n; i++ {
				s, _ := genString(t, fmt.Sprintf("detail%d", i))
				c.Detail = append(c.Detail, s)
			}
		}
		c.Nested = genInner(t, "nested", 1)
	case "codec":
		if rapid.IntRange(0, 2).Draw(t, "owncode") == 0 {
			c.Code = rapid.SampledFrom([]int{29, 100, 1000, 65536, -5, 2147483647, -32000, -32768, -1}).Draw(t, "code")
		}
		switch rapid.IntRange(0, 2).Draw(t, "datakind") {
		case 1:
			c.Data = json.RawMessage(`{}`)
		case 2:
			k, _ := genString(t, "datakey")
			c.Data = mustJSON(map[string]interface{}{k: genAny(t, "dataval", 1), "n": 1.5})
		}
	}
	return c
}

func c11NT(c c11Case) (bool, []string) {
	cl := []string{"table_" + c.Table, "kind_" + c.Kind, "tr_" + c.Transport, "shape_" + c.Shape}
	if c.Msg == "" && c.Kind != "nil" {
		cl = append(cl, "empty_message")
	}
	if c.Code != 0 {
		cl = append(cl, "codec_own_code")
	}
	nt := c.Kind != "nil" && (c.Table != "none" || c.Msg == "" || len(c.Msg) != len([]rune(c.Msg)))
	return nt, cl
}

const c11Rule = "error value kinds {nil, plain value, unregistered pointer to plain, pointer-plain, marshalable pointer, marshalable value-registered, codec, failing unmarshal, failing codec, codec whose conversion to the wire form fails, stdlib, wrapped} with generated messages (valid UTF-8 incl. empty/escape-heavy) and fields x registration tables {same, client-only, server-only, disjoint codes, swapped types, none} x {error, (value,error)} x {ws, http, custom}; complete grid of kind x table x shape x transport plus rapid-generated content; 2-8 concurrent callers of one client function, each provoking its own error kind (or none) for 5-400 rounds; calls cancelled by their caller while running whose handler answers the cancellation with an error of each kind (ws). Non-trivial = a non-nil error with a registration table in play or a non-ASCII/empty message; distinct by descriptor hash"

func TestC11(t *testing.T) {
	rec := NewRec("C11", c11Rule)
	defer rec.Finish(t)
	rec.RequireClass("kind_formatter", "kind_xerrors", "error_after_cancel", "concurrent_callers", "table_same", "table_disjoint", "table_swapped", "table_client-only", "table_server-only", "kind_meta", "kind_codec", "kind_failmeta", "kind_failcodec", "empty_message", "shape_VE")
	env, err := newC11Env()
	if err != nil {
		t.Fatalf("env: %v", err)
	}
	defer env.Close()

	t.Run("grid", func(t *testing.T) {
		for _, tn := range c11TableNames {
			for _, k := range c11Kinds {
				for _, sh := range []string{"E", "VE"} {
					for _, tr := range c01Transports {
						for _, msg := range []string{"boom", "", "<é>\n\"q\""} {
							c := c11Case{Table: tn, Transport: tr, Shape: sh, Kind: k, Msg: msg, Num: -5, Detail: []string{"d"}, Data: json.RawMessage(`{"k":[1,"x"],"n":2}`)}
							nt, cl := c11NT(c)
							rec.Run(t, c, nt, cl, func() *Violation { return env.run(c) })
						}
					}
				}
			}
		}
		rec.Exhaustive(false)
	})
	t.Run("cancelled", func(t *testing.T) {
		for _, tn := range c11TableNames {
			for _, k := range c11Kinds {
				c := c11Case{Table: tn, Transport: "ws", Shape: "E", Kind: k, Msg: "after-cancel", Num: 3, Data: json.RawMessage(`{"n":7}`), Cancelled: true}
				nt, cl := c11NT(c)
				rec.Run(t, c, nt, append(cl, "error_after_cancel"), func() *Violation { return env.runCancelled(c) })
			}
		}
	})
	t.Run("concurrent", func(t *testing.T) {
		for _, tr := range c01Transports {
			for _, sh := range []string{"E", "VE"} {
				c := c11Conc{Table: "same", Transport: tr, Shape: sh, Rounds: scale(60, 400)}
				for i, k := range []string{"nil", "plain", "meta", "codec", "nil", "stdlib", "ptrplain", "both"} {
					c.Items = append(c.Items, c11Case{Kind: k, Msg: fmt.Sprintf("m%d-%s", i, k), Num: int64(i), Data: json.RawMessage(`{"k":[1,"x"]}`)})
				}
				rec.Run(t, c, true, []string{"concurrent_callers", "tr_" + tr, "shape_" + sh}, func() *Violation { return env.runConc(c) })
			}
		}
	})
	rec.Rapid(t, "rapid", func(rt *rapid.T) {
		if rapid.IntRange(0, 19).Draw(rt, "conc") == 0 {
			c := c11Conc{Table: rapid.SampledFrom(c11TableNames).Draw(rt, "table"), Transport: rapid.SampledFrom(c01Transports).Draw(rt, "transport"),
				Shape: rapid.SampledFrom([]string{"E", "VE"}).Draw(rt, "shape"), Rounds: rapid.IntRange(5, 40).Draw(rt, "rounds")}
			n := rapid.IntRange(2, 8).Draw(rt, "ncallers")
			for i := 0; i < n; i++ {
				it := genC11(rt)
				it.Msg = fmt.Sprintf("c%d-%s", i, it.Msg)
				c.Items = append(c.Items, it)
			}
			rec.Run(rt, c, true, []string{"concurrent_callers", "tr_" + c.Transport, "shape_" + c.Shape}, func() *Violation { return env.runConc(c) })
			return
		}
		c := genC11(rt)
		nt, cl := c11NT(c)
		if c.Kind != "nil" && rapid.IntRange(0, 14).Draw(rt, "cancelled") == 0 {
			c.Cancelled, c.Transport, c.Shape = true, "ws", "E"
			rec.Run(rt, c, nt, append(cl, "error_after_cancel"), func() *Violation { return env.runCancelled(c) })
			return
		}
		rec.Run(rt, c, nt, cl, func() *Violation { return env.run(c) })
	})
}

func TestC11Replay(t *testing.T) {
	env, err := newC11Env()
	if err != nil {
		t.Fatalf("env: %v", err)
	}
	defer env.Close()
	Replay(t, "C11", 1, func(raw json.RawMessage) *Violation {
		var probe map[string]json.RawMessage
		_ = json.Unmarshal(raw, &probe)
		if _, ok := probe["items"]; ok {
			var c c11Conc
			if err := json.Unmarshal(raw, &c); err != nil {
				return nil
			}
			return env.runConc(c)
		}
		var c c11Case
		if err := json.Unmarshal(raw, &c); err != nil {
			return nil
		}
		if c.Cancelled {
			return env.runCancelled(c)
		}
		return env.run(c)
	})
}
