package harness

// C14 - concurrent writers never corrupt or interleave WebSocket messages.
//
// Generator: on one connection, simultaneously: K callers, cancellations (both
// code paths), handler responses of 10 B - 40 KiB through the lazily acquired
// writer, channel registrations, values and closes, reverse calls, pings every
// 1-5 ms in both directions, optionally one reconnect; delays at write.locked
// to stretch every critical section. Oracle: the proxy's frame parser accepts
// every frame (no reserved bits, no data frame inside a fragmented message,
// valid continuation sequences, masking), every reassembled data message in
// both directions is exactly one JSON object with jsonrpc "2.0" shaped like a
// request or a response; the process survives (gorilla panics on detected
// concurrent writes); thorough builds with -race.

import (
	"bytes"
	"context"
	"encoding/json"
	"fmt"
	"io"
	"strings"
	"sync"
	"testing"
	"time"

	"pgregory.net/rapid"
)

type c14Case struct {
	Callers   int         `json:"callers"`
	CallsEach int         `json:"calls_each"`
	Sizes     []int       `json:"sizes"`
	Cancels   int         `json:"cancels"` // gated calls cancelled while running
	Subs      int         `json:"subs"`    // subscriptions (registration reply, values, close)
	SubLen    int         `json:"sub_len"`
	SubCancel int         `json:"sub_cancel"` // subscriptions cancelled through their context
	Reverse   int         `json:"reverse"`    // forward calls that reverse-call twice
	PingMs    int         `json:"ping_ms"`
	Reconnect bool        `json:"reconnect"`
	Garbage   int         `json:"garbage,omitempty"`   // malformed / invalid-id / batch frames arriving at the server from the peer while the workload runs
	Outage    bool        `json:"outage,omitempty"`    // at the end the peer falls silent for three client timeouts with every redial refused, then the path heals
	StallReq  bool        `json:"stall_req,omitempty"` // at the end the peer stops reading for longer than the client's timeout while the client is sending an 8 MiB request (pings keep ticking)
	CloseMid  int         `json:"close_mid,omitempty"` // > 0: at the end the client's closer is invoked while the client is in the middle of writing a reverse-call response of this many bytes
	Rules     []*HookRule `json:"rules,omitempty"`
}

func checkWireMessage(m WireMsg) *Violation {
	if m.Opcode != 1 && m.Opcode != 2 {
		return nil
	}
	dec := json.NewDecoder(bytes.NewReader(m.Payload))
	var obj map[string]json.RawMessage
	if err := dec.Decode(&obj); err != nil || obj == nil {
		return violf("message-not-json-object", "%s message %d on connection %d (%d bytes, %d frames) is not one JSON object: %v: %s", m.Dir, m.Seq, m.Conn, len(m.Payload), m.Frames, err, trunc(string(m.Payload), 160))
	}
	var rest json.RawMessage
	if err := dec.Decode(&rest); err != io.EOF {
		return violf("message-interleaved", "%s message %d on connection %d holds more than one JSON value (interleaved or concatenated writes): %s", m.Dir, m.Seq, m.Conn, trunc(string(m.Payload), 200))
	}
	var ver string
	if json.Unmarshal(obj["jsonrpc"], &ver) != nil || ver != "2.0" {
		return violf("message-not-jsonrpc", "%s message %d lacks jsonrpc \"2.0\": %s", m.Dir, m.Seq, trunc(string(m.Payload), 160))
	}
	_, hasMethod := obj["method"]
	_, hasID := obj["id"]
	_, hasRes := obj["result"]
	_, hasErr := obj["error"]
	switch {
	case hasMethod:
		var meth string
		if json.Unmarshal(obj["method"], &meth) != nil || meth == "" {
			return violf("message-bad-shape", "%s message %d has a non-string method: %s", m.Dir, m.Seq, trunc(string(m.Payload), 160))
		}
	case hasID && (hasRes != hasErr):
	default:
		return violf("message-bad-shape", "%s message %d is neither a request nor a response: %s", m.Dir, m.Seq, trunc(string(m.Payload), 160))
	}
	return nil
}

func runC14(c c14Case) (*Violation, string) {
	ping := time.Duration(c.PingMs) * time.Millisecond
	// (in the close-during-own-write cases the server does not ping: a socket closed with unread inbound data pending
	// discards its send buffer, and what the client wrote last would never show on the wire)
	rig, err := NewRig(RigOpts{Reverse: true, ClientPing: ping, ClientTimeout: 100*ping + 300*time.Millisecond, ServerPing: ping + time.Millisecond,
		ServerPingOff: c.CloseMid > 0 && !c.StallReq, BackoffMin: 3 * time.Millisecond, BackoffMax: 10 * time.Millisecond})
	if err != nil {
		return nil, "rig"
	}
	defer rig.Close()
	cl, err := rig.NewClient("c")
	if err != nil {
		return nil, "client"
	}
	hooks.Reset(c.Rules...)
	defer hooks.Off()

	var wg sync.WaitGroup
	var mu sync.Mutex
	var foreign *Violation
	note := func(p *Pending) {
		if v := p.CheckOwn(); v != nil {
			mu.Lock()
			foreign = v
			mu.Unlock()
		}
	}
	size := func(i int) int {
		if len(c.Sizes) == 0 {
			return 0
		}
		return c.Sizes[i%len(c.Sizes)]
	}
	// callers
	for k := 0; k < c.Callers; k++ {
		wg.Add(1)
		go func(k int) {
			defer wg.Done()
			for i := 0; i < c.CallsEach; i++ {
				p := rig.Go(cl, "call", rig.Tok("c"), Plan{Size: size(k + i)})
				select {
				case <-p.Done:
					note(p)
				case <-time.After(3 * time.Second):
					return
				}
			}
		}(k)
	}
	// cancellations of running calls (cancel path 1)
	for k := 0; k < c.Cancels; k++ {
		wg.Add(1)
		go func() {
			defer wg.Done()
			tok := rig.Tok("x")
			p := rig.Go(cl, "call", tok, Plan{Gate: true, WatchCtx: true, Size: 3000})
			rig.W.WaitStarted(tok, 500*time.Millisecond)
			p.Cancel()
			select {
			case <-p.Done:
			case <-time.After(2 * time.Second):
			}
			rig.W.Release(tok)
		}()
	}
	// subscriptions: registration reply, values, close; some cancelled through their context (cancel path 2)
	for k := 0; k < c.Subs; k++ {
		wg.Add(1)
		go func(k int) {
			defer wg.Done()
			ctx, cancel := context.WithCancel(context.Background())
			defer cancel()
			ch, err := cl.C.Sub(ctx, rig.Tok("s"), Plan{N: c.SubLen, Early: 2, ElemPad: size(k)})
			if err != nil {
				return
			}
			n := 0
			for range ch {
				n++
				if k < c.SubCancel && n == c.SubLen/2 {
					cancel()
				}
			}
		}(k)
	}
	// reverse calls: server -> client requests and client -> server responses share the two write paths
	for k := 0; k < c.Reverse; k++ {
		wg.Add(1)
		go func() {
			defer wg.Done()
			p := rig.Go(cl, "call", rig.Tok("r"), Plan{Reverse: 2, RevAlias: true, Size: 2000})
			select {
			case <-p.Done:
				note(p)
			case <-time.After(3 * time.Second):
			}
		}()
	}
	if c.Garbage > 0 {
		wg.Add(1)
		go func() {
			defer wg.Done()
			frames := []string{`{"jsonrpc":"2.0","id":[3],"method":"Tok.Call","params":[]}`, `nonsense`, `[{"jsonrpc":"2.0","id":1,"method":"Tok.Call"}]`, `{"jsonrpc":"2.0","id":{"a":1},"method":"x"}`, `{"id":true}`, `{`}
			for i := 0; i < c.Garbage; i++ {
				rig.Proxy.InjectClientFrame(frames[i%len(frames)])
				time.Sleep(300 * time.Microsecond)
			}
		}()
	}
	if c.Reconnect {
		wg.Add(1)
		go func() {
			defer wg.Done()
			var slowGate chan struct{}
			if c.Reverse > 0 && cl.Rev != nil {
				// a reverse call whose client-side handler is still running when the connection is replaced: its
				// answer is written after the swap
				slowGate = make(chan struct{})
				cl.Rev.Gate = slowGate
				sp := rig.Go(cl, "call", rig.Tok("slowrev"), Plan{RevSlow: true})
				for deadline := time.Now().Add(time.Second); !rig.W.InReverse(sp.Tok) && time.Now().Before(deadline); {
					time.Sleep(200 * time.Microsecond)
				}
				defer func() {
					close(slowGate)
					time.Sleep(30 * time.Millisecond)
				}()
			}
			time.Sleep(time.Duration(2+c.PingMs) * time.Millisecond)
			rig.Proxy.CutAll("rst")
			// notifications are written even while the client is between connections: they exercise
			// the write path right across the moment the underlying connection is swapped
			stopN := make(chan struct{})
			defer close(stopN)
			go func() {
				for i := 0; i < 400; i++ {
					select {
					case <-stopN:
						return
					default:
					}
					rig.Go(cl, "notify", rig.Tok("n"), Plan{})
					time.Sleep(150 * time.Microsecond)
				}
			}()
			// keep writers busy across the swap of the underlying connection
			deadline := time.Now().Add(400 * time.Millisecond)
			for time.Now().Before(deadline) {
				p := rig.Go(cl, "call", rig.Tok("after"), Plan{Size: 5000})
				select {
				case <-p.Done:
					note(p)
					if p.Err == nil {
						return
					}
				case <-time.After(500 * time.Millisecond):
				}
				time.Sleep(time.Millisecond)
			}
		}()
	}
	if !bounded(12*time.Second, wg.Wait) {
		return violf("workload-wedged", "the concurrent workload (every call of which has its own 2-3 s limit) had not finished after 12 s"), ""
	}
	time.Sleep(3 * ping)
	if foreign != nil {
		return foreign, ""
	}
	if c.Outage {
		// silence for several timeouts while redials are refused: the client's timeout path and its redial goroutine
		// work on the same connection state for a while; then the path heals and a call must succeed
		T := 100*ping + 300*time.Millisecond
		rig.Proxy.SetPolicy("reject")
		rig.Proxy.CutAll("blackhole")
		time.Sleep(3*T + T/3)
		rig.Proxy.SetPolicy("forward")
		// the redial gets through on its own, with the application quiet (a call issued right now would put a lock
		// hand-over between the timeout path and the redial, hiding unsynchronised accesses from the race detector)
		time.Sleep(100 * time.Millisecond)
		healed := false
		for deadline := time.Now().Add(5*T + 3*time.Second); time.Now().Before(deadline); time.Sleep(5 * time.Millisecond) {
			if rig.Probe(cl, time.Second) == nil {
				healed = true
				break
			}
		}
		if !healed {
			return violf("workload-wedged", "after an outage of three timeouts (redials refused) the path healed but no call succeeded"), ""
		}
	} else if c.StallReq {
		// the peer stops reading for longer than the client's timeout while the client is in the middle of a request
		// much larger than the socket buffers; the client's pinger keeps ticking meanwhile. The client may give the
		// connection up (it is silent, after all), but it must not let a second writer onto a connection whose
		// current message is unfinished
		armed := rig.Proxy.StallAfterBytes("c2s", 64<<10)
		p := rig.Go(cl, "call", rig.Tok("stallreq"), Plan{Junk: strings.Repeat("j", 8<<20)})
		select {
		case <-armed:
			time.Sleep(100*ping + 600*time.Millisecond)
		case <-p.Done:
		case <-time.After(15 * time.Second):
		}
		rig.Proxy.Unstall()
		select {
		case <-p.Done:
		case <-time.After(5 * time.Second):
		}
		time.Sleep(20 * time.Millisecond)
	} else if c.CloseMid > 0 {
		// the application closes the client while one of the client's own writers (a reverse-call response) is in
		// the middle of a multi-fragment message: whatever reaches the wire must not be a close frame inside that
		// unfinished message, and the closer's access to the connection must be synchronised with the writer
		// (whether the interrupted message still reaches the peer is up to TCP: closing a socket with unread
		// keepalives pending discards what is still in the send buffer, on the unchanged tree too)
		armed := rig.Proxy.StallAfterBytes("c2s", 16<<10)
		p := rig.Go(cl, "call", rig.Tok("closemid"), Plan{RevBig: c.CloseMid})
		select {
		case <-armed:
			done := make(chan bool, 1)
			go func() { done <- cl.Close(6 * time.Second) }()
			time.Sleep(40 * time.Millisecond)
			rig.Proxy.Unstall()
			if !<-done {
				return violf("closer-hang", "the closer, invoked while a %d-byte reverse-call response was being written, did not return within 6s", c.CloseMid), ""
			}
		case <-p.Done:
		case <-time.After(15 * time.Second): // marshalling megabytes under the race detector on a busy machine takes a while
		}
		rig.Proxy.Unstall()
		// what the client still had in its socket buffer has to pass the proxy before the end of the connection shows there
		for deadline := time.Now().Add(3 * time.Second); rig.Proxy.LiveConns() > 0 && time.Now().Before(deadline); {
			time.Sleep(2 * time.Millisecond)
		}
	}
	if fv := rig.Proxy.FramingViolations(); len(fv) > 0 {
		return violf("framing-violation", "WebSocket framing corrupted: %v", fv), ""
	}
	wire := rig.Proxy.Log()
	for _, m := range wire {
		if v := checkWireMessage(m); v != nil {
			return v, ""
		}
	}
	return nil, fmt.Sprintf("%d", len(wire))
}

func c14NT(c c14Case) (bool, []string) {
	kinds := 0
	cl := []string{}
	add := func(ok bool, name string) {
		if ok {
			kinds++
			cl = append(cl, name)
		}
	}
	add(c.Callers > 0 && c.CallsEach > 0, "w_calls")
	add(c.Cancels > 0, "w_cancel_call")
	add(c.Subs > 0, "w_streams")
	add(c.SubCancel > 0 && c.Subs > 0, "w_cancel_sub")
	add(c.Reverse > 0, "w_reverse")
	add(c.PingMs <= 5, "w_pings")
	add(c.Reconnect, "w_reconnect")
	add(c.Garbage > 0, "w_invalid_inbound_frames")
	if c.CloseMid > 0 && !c.StallReq {
		cl = append(cl, "close_during_own_write")
	}
	if c.StallReq {
		cl = append(cl, "peer_stops_reading_mid_request")
	}
	if c.Outage {
		cl = append(cl, "outage_with_refused_redials")
	}
	if c.Reconnect && c.Reverse > 0 {
		cl = append(cl, "reverse_handler_running_across_reconnect")
	}
	multi := false
	for _, s := range c.Sizes {
		if s > 4096 {
			multi = true
		}
	}
	if multi {
		cl = append(cl, "multi_frame")
	}
	if len(c.Rules) > 0 {
		cl = append(cl, "with_delays")
	}
	return kinds >= 3 && multi, cl
}

const c14Rule = "one connection with, simultaneously: 0-6 caller goroutines x 1-8 calls with result sizes 10 B - 40 KiB, 0-3 running calls cancelled (cancel path 1), 0-4 subscriptions of 4-60 padded values (registration replies, values, closes; some cancelled through their context = cancel path 2), 0-3 forward calls that reverse-call three times, pings every 1-5 ms from both sides, optionally one connection reset with calls continuing across the swap, optionally 5-60 malformed / invalid-id / batch frames arriving from the peer meanwhile, optionally the client's closer invoked while the client is inside a 6-12 MiB multi-fragment reverse-call response (link paused for 40 ms), optionally the peer not reading for longer than the client's timeout while the client sends an 8 MiB request with its pinger ticking, a reverse call whose client-side handler is still running when the connection is replaced, an outage of three client timeouts with every redial refused followed by a healed path; 0-3 delays of 50 us - 2 ms inside the writers' critical sections (write.locked). Non-trivial = >=3 writer kinds active and at least one multi-frame message; distinct by descriptor hash"

func TestC14(t *testing.T) {
	rec := NewRec("C14", c14Rule)
	defer rec.Finish(t)
	rec.EnableJournal()
	rec.RequireClass("reverse_handler_running_across_reconnect", "w_invalid_inbound_frames", "w_calls", "w_cancel_call", "w_streams", "w_cancel_sub", "w_reverse", "w_pings", "w_reconnect", "multi_frame", "with_delays")
	var msgs int64
	run := func(ft failer, c c14Case) {
		nt, cl := c14NT(c)
		rec.Run(ft, c, nt, cl, func() *Violation {
			v, info := runC14(c)
			if v != nil && v.Key == "workload-wedged" {
				if v2, _ := runC14(c); v2 == nil {
					v = nil
				}
			}
			var n int64
			fmt.Sscanf(info, "%d", &n)
			msgs += n
			return v
		})
	}
	t.Run("grid", func(t *testing.T) {
		sh, nsh := shard()
		base := c14Case{Callers: 4, CallsEach: 5, Sizes: []int{10, 5000, 40000, 300}, Cancels: 2, Subs: 3, SubLen: 20, SubCancel: 1, Reverse: 2, PingMs: 1}
		k := 0
		for _, rc := range []bool{false, true} {
			for _, d := range []int{0, 100, 1000} {
				k++
				if k%nsh != sh {
					continue
				}
				c := base
				c.Reconnect = rc
				if d > 0 {
					c.Rules = []*HookRule{{Point: "write.locked", Occ: 0, DelayU: d / 10}, {Point: "write.locked", Occ: 3 + k, DelayU: d * 2}, {Point: "write.locked", Occ: 9 + k, Side: "server", DelayU: d * 2}}
				}
				run(t, c)
			}
		}
		if sh == 0 {
			rec.RequireClass("peer_stops_reading_mid_request", "close_during_own_write", "outage_with_refused_redials") // grid cases of the first shard
			c := base
			c.Garbage = 40
			c.Sizes = []int{40000, 20000, 9000}
			run(t, c)
			c = base
			c.CloseMid = 12 << 20
			run(t, c)
			c = c14Case{Callers: 1, CallsEach: 2, Sizes: []int{10}, PingMs: 2, CloseMid: 8 << 20, Garbage: 5}
			run(t, c)
			c = c14Case{Callers: 2, CallsEach: 2, Sizes: []int{10, 5000}, PingMs: 2, StallReq: true}
			run(t, c)
			c = c14Case{Callers: 2, CallsEach: 2, Sizes: []int{10, 5000}, Reverse: 1, PingMs: 1, Outage: true}
			run(t, c)
			c = c14Case{Callers: 1, CallsEach: 1, Sizes: []int{10}, PingMs: 3, Outage: true}
			run(t, c)
		}
	})
	rec.Rapid(t, "rapid", func(rt *rapid.T) {
		c := c14Case{Callers: rapid.IntRange(0, 6).Draw(rt, "callers"), CallsEach: rapid.IntRange(1, 8).Draw(rt, "callseach"), Cancels: rapid.IntRange(0, 3).Draw(rt, "cancels"),
			Subs: rapid.IntRange(0, 4).Draw(rt, "subs"), SubLen: rapid.IntRange(4, 60).Draw(rt, "sublen"), Reverse: rapid.IntRange(0, 3).Draw(rt, "reverse"),
			PingMs: rapid.IntRange(1, 5).Draw(rt, "ping"), Reconnect: rapid.IntRange(0, 2).Draw(rt, "reconnect") == 0}
		c.SubCancel = rapid.IntRange(0, c.Subs).Draw(rt, "subcancel")
		ns := rapid.IntRange(1, 4).Draw(rt, "nsizes")
		for i := 0; i < ns; i++ {
			c.Sizes = append(c.Sizes, rapid.SampledFrom([]int{10, 100, 4000, 4096, 4200, 9000, 20000, 40000}).Draw(rt, fmt.Sprintf("size%d", i)))
		}
		if rapid.IntRange(0, 2).Draw(rt, "garbagekind") == 0 {
			c.Garbage = rapid.IntRange(5, 60).Draw(rt, "garbage")
		}
		c.StallReq = rapid.IntRange(0, 11).Draw(rt, "stallreq") == 0
		c.Outage = !c.StallReq && rapid.IntRange(0, 9).Draw(rt, "outage") == 0
		if rapid.IntRange(0, 5).Draw(rt, "closemidkind") == 0 {
			// more than the socket buffers on the path hold, so that the writer really is inside the message
			c.CloseMid = rapid.SampledFrom([]int{6 << 20, 8 << 20, 12 << 20}).Draw(rt, "closemid")
		}
		nr := rapid.IntRange(0, 3).Draw(rt, "nrules")
		for i := 0; i < nr; i++ {
			r := &HookRule{Point: "write.locked", Occ: rapid.IntRange(0, 40).Draw(rt, fmt.Sprintf("occ%d", i)), Side: rapid.SampledFrom([]string{"", "client", "server"}).Draw(rt, fmt.Sprintf("side%d", i)),
				DelayU: rapid.SampledFrom([]int{50, 300, 2000}).Draw(rt, fmt.Sprintf("d%d", i))}
			if r.Occ == 0 && r.DelayU > 100 {
				r.DelayU = 100
			}
			c.Rules = append(c.Rules, r)
		}
		run(rt, c)
	})
	rec.SetExtra("wire_messages_validated", msgs)
}

func TestC14Replay(t *testing.T) {
	Replay(t, "C14", 30, func(raw json.RawMessage) *Violation {
		var c c14Case
		if err := json.Unmarshal(raw, &c); err != nil {
			return nil
		}
		v, _ := runC14(c)
		return v
	})
}
