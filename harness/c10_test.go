package harness

// C10 - no peer input can crash or wedge the process; oversize bodies are refused.
//
// Generator: frame sequences over {valid call, notification, xrpc.cancel,
// xrpc.ch.val, xrpc.ch.close, response, garbage} with params of every JSON
// shape, ids of every JSON type, binary and empty frames and byte-level
// mutations; sent (a) to a server hosted in a child process, (b) from a fake
// server to a library client hosted in a child process. Oracle: the child is
// alive afterwards, a valid probe succeeds on a fresh and on the same
// connection. Size limit: bodies of exactly L-1, L, L+1 bytes.

import (
	"bytes"
	"context"
	"encoding/json"
	"fmt"
	"io"
	"net/http"
	"net/http/httptest"
	"strings"
	"sync"
	"testing"
	"time"

	jsonrpc "github.com/filecoin-project/go-jsonrpc"
	"github.com/gorilla/websocket"
	"pgregory.net/rapid"
)

type hostileFrame struct {
	Text   string `json:"text"`
	Binary bool   `json:"binary,omitempty"`
}

type c10Case struct {
	Target  string         `json:"target"` // server | client | client+handler | size
	Prelude string         `json:"prelude,omitempty"`
	Pending bool           `json:"pending,omitempty"` // client targets: a channel-returning call is in flight (never answered by the peer itself) while the frames arrive
	Frames  []hostileFrame `json:"frames,omitempty"`
	// size cases
	Limit int    `json:"limit,omitempty"`
	Delta int    `json:"delta,omitempty"` // body size = Limit + Delta
	Batch bool   `json:"batch,omitempty"`
	Pad   string `json:"pad,omitempty"` // where the filler goes: inside (a string param, default) | leading | trailing | both | between
}

var c10Vals = []string{"0", "1", "-1", "2", "1.5", "1e99", "-0", "18446744073709551615", "-9223372036854775808", `"s"`, `""`, `"1"`, "true", "false", "null", "[]", "[1]", "[[1]]", "{}", `{"a":1}`, `[{"a":[1]}]`, "9007199254740993", `"\u0000"`,
	`"` + strings.Repeat("x", 64) + `"`, "1" + strings.Repeat("0", 60), strings.Repeat("[", 24) + "1" + strings.Repeat("]", 24), `{"k":"` + strings.Repeat("v", 50) + `"}`}

func genParams(t *rapid.T, label string) *string {
	s := func(x string) *string { return &x }
	v := func(i int) string { return rapid.SampledFrom(c10Vals).Draw(t, fmt.Sprintf("%s_v%d", label, i)) }
	switch rapid.IntRange(0, 9).Draw(t, label+"_shape") {
	case 0:
		return nil
	case 1:
		return s("null")
	case 2:
		return s("[]")
	case 3, 4:
		return s("[" + v(0) + "]")
	case 5, 6:
		return s("[" + v(0) + "," + v(1) + "]")
	case 7:
		return s("[" + v(0) + "," + v(1) + "," + v(2) + "]")
	case 8:
		return s(`{"id":` + v(0) + `}`)
	default:
		return s(v(0))
	}
}

func genHostileFrame(t *rapid.T, i int) hostileFrame {
	l := fmt.Sprintf("f%d", i)
	obj := func(id *string, method *string, params *string, extra string) string {
		parts := []string{`"jsonrpc":"2.0"`}
		if id != nil {
			parts = append(parts, `"id":`+*id)
		}
		if method != nil {
			parts = append(parts, `"method":`+string(mustJSON(*method)))
		}
		if params != nil {
			parts = append(parts, `"params":`+*params)
		}
		if extra != "" {
			parts = append(parts, extra)
		}
		return "{" + strings.Join(parts, ",") + "}"
	}
	var id *string
	if rapid.IntRange(0, 2).Draw(t, l+"_hasid") != 0 {
		x := rapid.SampledFrom(c10Vals).Draw(t, l+"_id")
		id = &x
	}
	s := func(x string) *string { return &x }
	var text string
	switch rapid.IntRange(0, 13).Draw(t, l+"_kind") {
	case 12, 13: // a response aimed at one of the first request ids, i.e. possibly at a call that is in flight
		small := "%PENDING_ID%" // replaced, when the frame is injected, by the id of the client's unanswered channel-returning call
		extra := `"result":` + rapid.SampledFrom(c10Vals).Draw(t, l+"_res")
		if rapid.IntRange(0, 3).Draw(t, l+"_err") == 0 {
			extra = `"error":` + rapid.SampledFrom([]string{`{"code":1,"message":"x"}`, `{"code":"x"}`, "null", "5", `"str"`}).Draw(t, l+"_errv")
		}
		text = obj(&small, nil, nil, extra)
	case 0:
		text = obj(s("77"), s("T.Add"), s("[1,2]"), "")
	case 1:
		text = obj(nil, s("T.Nop"), nil, "")
	case 2, 3, 4:
		text = obj(id, s("xrpc.cancel"), genParams(t, l+"_p"), "")
	case 5, 6:
		text = obj(id, s("xrpc.ch.val"), genParams(t, l+"_p"), "")
	case 7:
		text = obj(id, s("xrpc.ch.close"), genParams(t, l+"_p"), "")
	case 8: // response to a request never made / with odd members
		extra := `"result":` + rapid.SampledFrom(c10Vals).Draw(t, l+"_res")
		if rapid.Bool().Draw(t, l+"_err") {
			extra = `"error":` + rapid.SampledFrom([]string{`{"code":1,"message":"x"}`, `{"code":"x"}`, "null", "5", `{"code":-1111111,"message":"m","meta":5,"data":[1]}`, `"str"`, "[]"}).Draw(t, l+"_errv")
		}
		text = obj(id, nil, nil, extra)
	case 9:
		m := rapid.SampledFrom([]string{"T.Add", "T.Raw", "Tok.Sub", "Tok.Call", "Rev.Ident", "rev.alias", "T.Missing", "", "xrpc.", "xrpc.cancel2", "alias.add", "alias.missing", "Tok.SubVia"}).Draw(t, l+"_m")
		extra := ""
		if rapid.IntRange(0, 3).Draw(t, l+"_meta") == 0 {
			extra = `"meta":` + rapid.SampledFrom([]string{`{"SpanContext":"AAAA"}`, `{"SpanContext":""}`, `{"SpanContext":"!!!"}`, `{"x":"y"}`, `{"SpanContext":"AAECAwQFBgcICQoLDA0ODxAREhMUFRYXGBkaGxwdHh8gISIjJCUmJygpKissLS4vMDEyMzQ1Njc4OTo7PD0+Pw=="}`, "5", "null"}).Draw(t, l+"_metav")
		}
		text = obj(id, &m, genParams(t, l+"_p"), extra)
	case 10:
		text = rapid.SampledFrom([]string{"", "{", "[]", "[1]", "null", "5", `"x"`, "{}", `{"jsonrpc":5}`, `{"id":{}}`, `[{"jsonrpc":"2.0","id":1,"method":"T.Add","params":[1,2]}]`, "\x00\x01", strings.Repeat("[", 2000), `{"method":"xrpc.cancel"}`, `{"method":"xrpc.ch.val","params":[]}`, `{"method":"xrpc.ch.close","params":null}`}).Draw(t, l+"_garbage")
	default:
		text = mutate(t, obj(id, s(rapid.SampledFrom([]string{"xrpc.cancel", "xrpc.ch.val", "xrpc.ch.close", "T.Add"}).Draw(t, l+"_mm")), genParams(t, l+"_p"), ""))
	}
	return hostileFrame{Text: text, Binary: rapid.IntRange(0, 7).Draw(t, l+"_bin") == 0}
}

// ---- hosted endpoints -------------------------------------------------------

type c10Env struct {
	mu      sync.Mutex
	server  *hostProc
	clients map[string]*c10ClientHost
	seq     int
}

type c10ClientHost struct {
	proc *hostProc
	fake *fakeServer
}

// fakeServer is the parent's side of the client attack: a raw websocket server that
// answers Tok.Call / Tok.Sub correctly and lets the test inject arbitrary frames.
type fakeServer struct {
	srv  *httptest.Server
	mu   sync.Mutex
	conn *websocket.Conn
	up   websocket.Upgrader
	// id of the latest request the fake peer leaves unanswered (Tok.SubInt)
	pendingID string
}

func newFakeServer() *fakeServer {
	f := &fakeServer{}
	f.srv = httptest.NewServer(http.HandlerFunc(func(w http.ResponseWriter, r *http.Request) {
		c, err := f.up.Upgrade(w, r, nil)
		if err != nil {
			return
		}
		f.mu.Lock()
		f.conn = c
		f.mu.Unlock()
		for {
			_, msg, err := c.ReadMessage()
			if err != nil {
				return
			}
			var req wireReq
			if json.Unmarshal(msg, &req) != nil || len(req.ID) == 0 {
				continue
			}
			var tok string
			if len(req.Params) > 0 {
				_ = json.Unmarshal(req.Params[0], &tok)
			}
			var resp string
			switch req.Method {
			case "Tok.Call":
				resp = fmt.Sprintf(`{"jsonrpc":"2.0","id":%s,"result":{"tok":%s,"echo":%s}}`, req.ID, mustJSON(tok), mustJSON(expectedEcho(tok)))
			case "Tok.Sub":
				resp = fmt.Sprintf(`{"jsonrpc":"2.0","id":%s,"result":1}`, req.ID)
			case "Tok.SubInt":
				f.mu.Lock()
				f.pendingID = string(req.ID)
				f.mu.Unlock()
				continue
			default:
				continue
			}
			f.mu.Lock()
			_ = c.WriteMessage(websocket.TextMessage, []byte(resp))
			f.mu.Unlock()
		}
	}))
	return f
}

func (f *fakeServer) inject(fr hostileFrame) error {
	f.mu.Lock()
	defer f.mu.Unlock()
	if f.conn == nil {
		return fmt.Errorf("no connection")
	}
	mt := websocket.TextMessage
	if fr.Binary {
		mt = websocket.BinaryMessage
	}
	id := f.pendingID
	if id == "" {
		id = "0"
	}
	return f.conn.WriteMessage(mt, []byte(strings.ReplaceAll(fr.Text, "%PENDING_ID%", id)))
}

func (e *c10Env) getServer() (*hostProc, error) {
	if e.server != nil && e.server.Alive() {
		return e.server, nil
	}
	h, err := startHost("server")
	if err != nil {
		return nil, err
	}
	e.server = h
	return h, nil
}

func (e *c10Env) getClient(withHandler bool) (*c10ClientHost, error) {
	key := "plain"
	env := []string{}
	if withHandler {
		key = "handler"
		env = append(env, "VERIF_HOST_HANDLER=1")
	}
	if e.clients == nil {
		e.clients = map[string]*c10ClientHost{}
	}
	if ch := e.clients[key]; ch != nil && ch.proc.Alive() {
		return ch, nil
	} else if ch != nil {
		closeTestServer(ch.fake.srv)
	}
	f := newFakeServer()
	env = append(env, "VERIF_TARGET=ws://"+f.srv.Listener.Addr().String())
	h, err := startHost("client", env...)
	if err != nil {
		return nil, err
	}
	ch := &c10ClientHost{proc: h, fake: f}
	e.clients[key] = ch
	return ch, nil
}

func (e *c10Env) Close() {
	if e.server != nil {
		e.server.Kill()
	}
	for _, c := range e.clients {
		c.proc.Kill()
		closeTestServer(c.fake.srv)
	}
}

func crashKey(c c10Case) string {
	for _, f := range c.Frames {
		if strings.Contains(f.Text, "xrpc.") {
			return "builtin-params-crash"
		}
	}
	return "process-crash"
}

func wsProbe(addr string, conn *websocket.Conn, tag string) error {
	if conn == nil {
		c, _, err := websocket.DefaultDialer.Dial("ws://"+addr, nil)
		if err != nil {
			return fmt.Errorf("dial: %w", err)
		}
		defer c.Close()
		conn = c
	}
	id := "__probe_" + tag
	if err := conn.WriteMessage(websocket.TextMessage, []byte(`{"jsonrpc":"2.0","id":"`+id+`","method":"T.Add","params":[20,22]}`)); err != nil {
		return fmt.Errorf("write: %w", err)
	}
	_ = conn.SetReadDeadline(time.Now().Add(3 * time.Second))
	for {
		_, msg, err := conn.ReadMessage()
		if err != nil {
			return fmt.Errorf("read: %w", err)
		}
		var r struct {
			ID     interface{}     `json:"id"`
			Result json.RawMessage `json:"result"`
		}
		if json.Unmarshal(msg, &r) == nil && r.ID == id {
			if string(r.Result) != "42" {
				return fmt.Errorf("probe answered with %s", msg)
			}
			return nil
		}
	}
}

func (e *c10Env) runServer(c c10Case) *Violation {
	h, err := e.getServer()
	if err != nil {
		return nil
	}
	conn, _, err := websocket.DefaultDialer.Dial("ws://"+h.addr, nil)
	if err != nil {
		return nil
	}
	defer conn.Close()
	if c.Prelude != "" {
		// something for cancels and channel messages to refer to: a gated call (id 1) and a subscription (id 2)
		_ = conn.WriteMessage(websocket.TextMessage, []byte(`{"jsonrpc":"2.0","id":1,"method":"Tok.Call","params":["`+c.Prelude+`-a",{"gate":true,"watch_ctx":true}]}`))
		_ = conn.WriteMessage(websocket.TextMessage, []byte(`{"jsonrpc":"2.0","id":2,"method":"Tok.Sub","params":["`+c.Prelude+`-b",{"n":3,"linger":true}]}`))
	}
	for _, f := range c.Frames {
		mt := websocket.TextMessage
		if f.Binary {
			mt = websocket.BinaryMessage
		}
		if err := conn.WriteMessage(mt, []byte(f.Text)); err != nil {
			break
		}
	}
	sameErr := wsProbe(h.addr, conn, "same")
	if h.DiedWithin(30*time.Millisecond) || !h.Alive() {
		return violf(crashKey(c), "the process hosting the server died: %v", h.Stderr(12))
	}
	if err := wsProbe(h.addr, nil, "fresh"); err != nil {
		if !h.Alive() {
			return violf(crashKey(c), "the process hosting the server died: %v", h.Stderr(12))
		}
		return violf("server-wedged", "a valid request on a fresh connection failed after the hostile sequence: %v", err)
	}
	if sameErr != nil {
		return violf("connection-wedged", "a valid request on the same connection failed although only well-formed WebSocket data frames were sent: %v", sameErr)
	}
	return nil
}

func (e *c10Env) runClient(c c10Case) *Violation {
	ch, err := e.getClient(c.Target == "client+handler")
	if err != nil {
		return nil
	}
	e.seq++
	tok := fmt.Sprintf("h%d", e.seq)
	if c.Prelude != "" {
		ch.proc.Send("sub " + tok + "-sub")
		if _, ok := ch.proc.expect("SUB "+tok+"-sub", 3*time.Second); !ok && !ch.proc.Alive() {
			return violf(crashKey(c), "the process hosting the client died: %v", ch.proc.Stderr(12))
		}
	}
	if c.Pending {
		ch.proc.Send("subpend " + tok + "-pend")
		ch.proc.expect("SUBPEND "+tok+"-pend", time.Second)
		time.Sleep(2 * time.Millisecond)
	}
	for _, f := range c.Frames {
		if err := ch.fake.inject(f); err != nil {
			break
		}
	}
	ch.proc.Send("call " + tok)
	line, ok := ch.proc.expect("RES "+tok, 4*time.Second)
	if ch.proc.DiedWithin(20*time.Millisecond) || !ch.proc.Alive() {
		return violf(crashKey(c), "the process hosting the client died: %v", ch.proc.Stderr(12))
	}
	if !ok {
		return violf("client-wedged", "the client did not complete a valid call after the hostile sequence (%s)", line)
	}
	if !strings.HasSuffix(line, " ok") {
		// the hostile sequence may legitimately have made the client drop the connection; one more try after reconnect
		ch.proc.Send("call " + tok + "r")
		line2, ok2 := ch.proc.expect("RES "+tok+"r", 4*time.Second)
		if !ch.proc.Alive() {
			return violf(crashKey(c), "the process hosting the client died: %v", ch.proc.Stderr(12))
		}
		if !ok2 || !strings.HasSuffix(line2, " ok") {
			if strings.Contains(line, "foreign") || strings.Contains(line2, "foreign") {
				return nil // a forged response with a guessed id is the peer's privilege
			}
			return violf("client-wedged", "valid calls keep failing after the hostile sequence: %q then %q", line, line2)
		}
	}
	return nil
}

// ---- size limit -------------------------------------------------------------

func runC10Size(c c10Case) *Violation {
	api := NewBasicAPI()
	rpc := jsonrpc.NewServer(jsonrpc.WithMaxRequestSize(int64(c.Limit)))
	rpc.Register("T", api)
	size := c.Limit + c.Delta
	// a valid request padded to the exact size with a long string parameter
	head, tail := `{"jsonrpc":"2.0","id":1,"method":"T.Echo","params":["`, `"]}`
	if c.Batch {
		head, tail = `[{"jsonrpc":"2.0","id":1,"method":"T.Echo","params":["`, `"]}]`
	}
	pad := size - len(head) - len(tail)
	if pad < 0 {
		return nil
	}
	var body string
	switch c.Pad {
	case "leading":
		body = strings.Repeat(" ", pad) + head + tail
	case "trailing":
		body = head + tail + strings.Repeat("\n", pad)
	case "both":
		body = strings.Repeat("\t", pad/2) + head + tail + strings.Repeat(" ", pad-pad/2)
	case "between":
		body = strings.Replace(head, `,"method"`, `,`+strings.Repeat(" ", pad)+`"method"`, 1) + tail
	default:
		body = head + strings.Repeat("a", pad) + tail
	}
	if len(body) != size {
		return nil
	}
	check := func(transport string, reply []byte, status int) *Violation {
		runs := api.Snapshot()["Echo"]
		sh, v := parseReply(reply)
		if v != nil {
			return v
		}
		if c.Delta > 0 {
			if runs != 0 {
				return violf("oversize-ran-handler", "%s: body of %d bytes with limit %d ran the handler", transport, size, c.Limit)
			}
			if sh.empty || len(sh.objs) == 0 || !sh.objs[0].hasErr {
				return violf("oversize-no-error", "%s: body of %d bytes with limit %d was not rejected with an error: %s", transport, size, c.Limit, trunc(string(reply), 120))
			}
			return nil
		}
		if runs != 1 || sh.empty || len(sh.objs) != 1 || sh.objs[0].hasErr {
			return violf("within-limit-rejected", "%s: body of %d bytes with limit %d: handler ran %d times, reply %s", transport, size, c.Limit, runs, trunc(string(reply), 120))
		}
		return nil
	}
	var buf bytes.Buffer
	rpc.HandleRequest(context.Background(), strings.NewReader(body), &buf)
	if v := check("inproc", buf.Bytes(), 0); v != nil {
		return v
	}
	srv := httptest.NewServer(rpc)
	defer closeTestServer(srv)
	resp, err := http.Post(srv.URL, "application/json", strings.NewReader(body))
	if err != nil {
		return nil
	}
	b, _ := io.ReadAll(resp.Body)
	resp.Body.Close()
	if v := check("http", b, resp.StatusCode); v != nil {
		return v
	}
	// the same body without a declared length (Transfer-Encoding: chunked): the limit is on what arrives, not on what is announced
	resp, err = http.Post(srv.URL, "application/json", struct{ io.Reader }{strings.NewReader(body)})
	if err != nil {
		return nil
	}
	b, _ = io.ReadAll(resp.Body)
	resp.Body.Close()
	return check("http-chunked", b, resp.StatusCode)
}

func c10NT(c c10Case) (bool, []string) {
	cl := []string{"target_" + c.Target}
	if c.Target == "size" {
		cl = append(cl, fmt.Sprintf("delta_%+d", c.Delta))
		return true, cl
	}
	nt := false
	if c.Pending {
		cl = append(cl, "channel_call_in_flight")
	}
	for _, f := range c.Frames {
		if strings.Contains(f.Text, "%PENDING_ID%") && c.Pending {
			cl = append(cl, "answers_pending_channel_call")
			nt = true
		}
		var r struct {
			Method string          `json:"method"`
			Params json.RawMessage `json:"params"`
			Result json.RawMessage `json:"result"`
			Error  json.RawMessage `json:"error"`
		}
		if json.Unmarshal([]byte(f.Text), &r) != nil {
			cl = append(cl, "not_a_frame")
			continue
		}
		if strings.HasPrefix(r.Method, "xrpc.") {
			cl = append(cl, "builtin")
			var ps []json.RawMessage
			canon := json.Unmarshal(r.Params, &ps) == nil && ((r.Method == "xrpc.ch.val" && len(ps) == 2) || (r.Method != "xrpc.ch.val" && len(ps) == 1))
			if canon {
				var n float64
				canon = json.Unmarshal(ps[0], &n) == nil
			}
			if !canon {
				cl = append(cl, "builtin_noncanonical")
				nt = true
			}
		}
		if r.Method == "" && (r.Result != nil || r.Error != nil) {
			cl = append(cl, "unsolicited_response")
			nt = true
		}
		if f.Binary {
			cl = append(cl, "binary_frame")
		}
	}
	if c.Prelude != "" {
		cl = append(cl, "with_prelude")
	}
	return nt, cl
}

const c10Rule = "frame sequences (1-8 frames) over {valid call, notification, xrpc.cancel, xrpc.ch.val, xrpc.ch.close, response, call with meta, garbage, byte-mutated} with params absent/null/[]/[x]/[x,y]/[x,y,z]/object/scalar (x over 23 JSON values incl. huge, negative, fractional, nested), ids of every JSON type, text and binary frames; sent to a server in a child process and, from a fake server, to a library client (with and without reverse handler) in a child process, optionally after a prelude that creates a live call / subscription. Size cases: limit L in 64..65536, bodies of exactly L-1, L, L+1 bytes, single and batch. Non-trivial = a protocol-internal method with a non-canonical parameter shape, or a response to a request never made, or a size case; distinct by descriptor hash"

func TestC10(t *testing.T) {
	env := &c10Env{}
	defer env.Close()
	rec := NewRec("C10", c10Rule)
	defer rec.Finish(t)
	rec.EnableJournal()
	rec.RequireClass("answers_pending_channel_call", "builtin_noncanonical", "unsolicited_response", "target_server", "target_client", "target_client+handler", "target_size", "binary_frame", "with_prelude", "delta_+1", "delta_+0", "delta_-1")
	known := rec.IsKnown("builtin-params-crash")

	run := func(ft failer, c c10Case) {
		nt, cl := c10NT(c)
		if known {
			for _, k := range cl {
				if k == "builtin_noncanonical" {
					rec.Excluded()
					return
				}
			}
		}
		rec.Run(ft, c, nt, cl, func() *Violation {
			env.mu.Lock()
			defer env.mu.Unlock()
			var v *Violation
			switch c.Target {
			case "server":
				v = env.runServer(c)
			case "size":
				return runC10Size(c)
			default:
				v = env.runClient(c)
			}
			if v != nil && (v.Key == "server-wedged" || v.Key == "connection-wedged" || v.Key == "client-wedged") {
				// bound-based: confirm
				var v2 *Violation
				if c.Target == "server" {
					v2 = env.runServer(c)
				} else {
					v2 = env.runClient(c)
				}
				if v2 == nil {
					rec.Class("unconfirmed", 1)
					return nil
				}
			}
			return v
		})
	}

	rec.Regress(t, func(raw json.RawMessage) *Violation {
		var c c10Case
		if json.Unmarshal(raw, &c) != nil {
			return nil
		}
		env.mu.Lock()
		defer env.mu.Unlock()
		switch c.Target {
		case "server":
			return env.runServer(c)
		case "size":
			return runC10Size(c)
		}
		return env.runClient(c)
	})
	t.Run("grid", func(t *testing.T) {
		// calls by alias: to a registered method, and to a target nobody registered (a dangling alias is accepted silently)
		for _, m := range []string{"alias.add", "alias.missing"} {
			for _, id := range []string{`"id":5,`, ""} {
				run(t, c10Case{Target: "server", Frames: []hostileFrame{{Text: `{"jsonrpc":"2.0",` + id + `"method":"` + m + `","params":[1,2]}`}}})
			}
		}
		// every built-in x every parameter shape x a few values, one frame per case
		shapes := []string{"", "null", "[]", "[%s]", "[%s,%s]", "[%s,%s,%s]", `{"id":%s}`, "%s"}
		vals := []string{"1", "2", `"s"`, "[1]", "{}", "null", "1.5", "-1", "true", "18446744073709551616"}
		for _, m := range []string{"xrpc.cancel", "xrpc.ch.val", "xrpc.ch.close"} {
			for _, sh := range shapes {
				for vi, v := range vals {
					if !strings.Contains(sh, "%s") && vi > 0 {
						continue
					}
					if !thorough() && vi%2 == 1 && strings.Count(sh, "%s") > 1 {
						continue
					}
					p := strings.ReplaceAll(sh, "%s", v)
					text := `{"jsonrpc":"2.0","method":"` + m + `"`
					if sh != "" {
						text += `,"params":` + p
					}
					text += "}"
					for _, target := range []string{"server", "client", "client+handler"} {
						run(t, c10Case{Target: target, Prelude: "p", Frames: []hostileFrame{{Text: text}}})
					}
				}
			}
		}
		// a channel-returning call in flight, answered by the peer with something that is not a channel id
		for _, res := range c10Vals {
			for _, target := range []string{"client", "client+handler"} {
				run(t, c10Case{Target: target, Pending: true, Frames: []hostileFrame{{Text: `{"jsonrpc":"2.0","id":%PENDING_ID%,"result":` + res + `}`}}})
			}
		}
		for _, L := range []int{64, 100, 1000, 4096, 65536} {
			for _, d := range []int{-1, 0, 1} {
				for _, batch := range []bool{false, true} {
					for _, pad := range []string{"inside", "leading", "trailing", "both", "between"} {
						run(t, c10Case{Target: "size", Limit: L, Delta: d, Batch: batch, Pad: pad})
					}
				}
			}
		}
	})

	rec.Rapid(t, "rapid", func(rt *rapid.T) {
		switch rapid.IntRange(0, 9).Draw(rt, "target") {
		case 0:
			run(rt, c10Case{Target: "size", Limit: rapid.IntRange(64, 65536).Draw(rt, "limit"), Delta: rapid.SampledFrom([]int{-1, 0, 1, 1, 2, 100}).Draw(rt, "delta"), Batch: rapid.Bool().Draw(rt, "batch"),
				Pad: rapid.SampledFrom([]string{"inside", "leading", "trailing", "both", "between"}).Draw(rt, "pad")})
		default:
			c := c10Case{Target: rapid.SampledFrom([]string{"server", "server", "client", "client+handler"}).Draw(rt, "tgt")}
			if rapid.Bool().Draw(rt, "prelude") {
				c.Prelude = "p"
			}
			c.Pending = c.Target != "server" && rapid.Bool().Draw(rt, "pending")
			n := rapid.IntRange(1, 8).Draw(rt, "nframes")
			for i := 0; i < n; i++ {
				c.Frames = append(c.Frames, genHostileFrame(rt, i))
			}
			run(rt, c)
		}
	})
}

func TestC10Replay(t *testing.T) {
	env := &c10Env{}
	defer env.Close()
	Replay(t, "C10", 3, func(raw json.RawMessage) *Violation {
		var c c10Case
		if err := json.Unmarshal(raw, &c); err != nil {
			return nil
		}
		switch c.Target {
		case "server":
			return env.runServer(c)
		case "size":
			return runC10Size(c)
		}
		return env.runClient(c)
	})
}

// FuzzC10Server: coverage-guided frames against an in-process server; a crash of the fuzz worker is the finding.
func FuzzC10Server(f *testing.F) {
	for _, s := range []string{
		`{"jsonrpc":"2.0","method":"xrpc.cancel","params":[1]}`, `{"jsonrpc":"2.0","method":"xrpc.ch.val","params":[1,2]}`, `{"jsonrpc":"2.0","method":"xrpc.ch.close","params":[1]}`,
		`{"jsonrpc":"2.0","id":1,"method":"T.Add","params":[1,2]}`, `{"jsonrpc":"2.0","id":"x","result":5}`, `{"jsonrpc":"2.0","id":3,"method":"Tok.Sub","params":["t",{"n":2}],"meta":{"SpanContext":"AAAA"}}`,
	} {
		f.Add([]byte(s), false)
	}
	w := NewWorld()
	rpc := jsonrpc.NewServer(jsonrpc.WithReverseClient[RevClient]("Rev"))
	rpc.Register("T", NewBasicAPI())
	rpc.Register("Tok", &TokAPI{W: w})
	srv := httptest.NewServer(rpc)
	addr := srv.Listener.Addr().String()
	var conn *websocket.Conn
	f.Fuzz(func(t *testing.T, frame []byte, binary bool) {
		if conn == nil {
			c, _, err := websocket.DefaultDialer.Dial("ws://"+addr, nil)
			if err != nil {
				t.Skip()
			}
			conn = c
		}
		mt := websocket.TextMessage
		if binary {
			mt = websocket.BinaryMessage
		}
		if err := conn.WriteMessage(mt, frame); err != nil {
			conn.Close()
			conn = nil
			return
		}
		if err := wsProbe(addr, conn, "fz"); err != nil {
			conn.Close()
			conn = nil
			if err2 := wsProbe(addr, nil, "fz2"); err2 != nil {
				t.Fatalf("VERIF-VIOLATION property=C10 key=server-wedged replay=- msg=probe failed after frame %q: %v / %v", frame, err, err2)
			}
			t.Fatalf("VERIF-VIOLATION property=C10 key=connection-wedged replay=- msg=same-connection probe failed after frame %q: %v", frame, err)
		}
	})
}

// FuzzC10Client: coverage-guided frames from a fake server against an in-process library client
// (with a reverse handler and a live subscription); a crash of the fuzz worker is the finding.
func FuzzC10Client(f *testing.F) {
	for _, s := range []string{
		`{"jsonrpc":"2.0","method":"xrpc.ch.val","params":[1,{"tok":"x","seq":0}]}`, `{"jsonrpc":"2.0","method":"xrpc.ch.close","params":[1]}`, `{"jsonrpc":"2.0","method":"xrpc.cancel","params":[1]}`,
		`{"jsonrpc":"2.0","id":1,"result":1}`, `{"jsonrpc":"2.0","id":7,"method":"Rev.Ident","params":["t"]}`, `{"jsonrpc":"2.0","id":"x","error":{"code":-1111111,"message":"m"}}`,
	} {
		f.Add([]byte(s), false)
	}
	fake := newFakeServer()
	var cl TokClient
	closer, err := jsonrpc.NewMergeClient(context.Background(), "ws://"+fake.srv.Listener.Addr().String(), "Tok", []interface{}{&cl}, nil,
		jsonrpc.WithClientHandler("Rev", &RevHandler{ID: "fz"}), jsonrpc.WithReconnectBackoff(2*time.Millisecond, 10*time.Millisecond))
	if err != nil {
		f.Skip()
	}
	_ = closer
	go func() {
		if ch, err := cl.Sub(context.Background(), "fz-sub", Plan{}); err == nil {
			for range ch {
			}
		}
	}()
	n := 0
	f.Fuzz(func(t *testing.T, frame []byte, binary bool) {
		n++
		if err := fake.inject(hostileFrame{Text: string(frame), Binary: binary}); err != nil {
			time.Sleep(5 * time.Millisecond) // reconnecting
		}
		tok := fmt.Sprintf("fz%d", n)
		ok := false
		var last error
		for try := 0; try < 3 && !ok; try++ {
			a := goCall(func() (Result, error) { return cl.Call(context.Background(), tok, Plan{}) })
			if !a.wait(2 * time.Second) {
				last = fmt.Errorf("no answer within 2s")
				continue
			}
			// a forged response carrying the id of this very call is the peer's privilege
			if a.err == nil || strings.Contains(a.err.Error(), "didn't match") {
				ok = true
			}
			last = a.err
		}
		if !ok {
			t.Fatalf("VERIF-VIOLATION property=C10 key=client-wedged replay=- msg=valid calls keep failing after frame %q: %v", frame, last)
		}
	})
}
