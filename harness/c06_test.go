package harness

// C06 - cancellation reaches exactly the cancelled call's handler, and nothing else.
//
// Generator: 1-6 gated unary calls + 0-3 paced subscriptions on one client plus
// an untouched second client; the subset to cancel; the instant (context already
// cancelled before the call, while the handler runs, racing the handler's
// release, after the subscription is established); {ws, http}; delays at the
// cancel-send and dispatch yield points. Oracle: a cancelled, running handler's
// context becomes Done; every other handler context stays live until its call
// completes (sampled right before the harness releases it and at every stream
// send); nothing on the second client is ever cancelled.

import (
	"context"
	"encoding/json"
	"fmt"
	"github.com/gorilla/websocket"
	"strings"
	"testing"
	"time"

	"pgregory.net/rapid"
)

type c06Call struct {
	Kind   string `json:"kind"`            // call | sub
	Cancel string `json:"cancel"`          // none | before | running | race | established | pending (subscription cancelled before its call was answered)
	Bare   bool   `json:"bare,omitempty"`  // sub: through the method whose only result is the channel
	Alias  bool   `json:"alias,omitempty"` // sub: through a server-side alias of the subscribing method
}

type c06Case struct {
	Transport string      `json:"transport"`
	Calls     []c06Call   `json:"calls"`
	Rules     []*HookRule `json:"rules,omitempty"`
	// SlowNotify: a notification whose handler keeps running until the end of the case is sent on the same connection
	// before the cancellations
	SlowNotify bool `json:"slow_notify,omitempty"`
	// SharedCtx: the subscriptions that get cancelled once established were all opened under one cancellable context
	// (each through its own value-carrying child of it), which is cancelled once
	SharedCtx bool `json:"shared_ctx,omitempty"`
	// HTTPTimeout (http): the client was built with WithTimeout(120ms), a WebSocket liveness setting; the calls stay in
	// flight for longer than that before anything is judged
	HTTPTimeout bool `json:"http_timeout,omitempty"`
}

func runC06(c c06Case) (*Violation, string) {
	ro := RigOpts{NoProxy: true}
	if c.HTTPTimeout && c.Transport == "http" {
		ro.HTTPClientTimeout = 120 * time.Millisecond
	}
	rig, err := NewRig(ro)
	if err != nil {
		return nil, "rig"
	}
	defer rig.Close()
	var cl *RigClient
	if c.Transport == "http" {
		cl, err = rig.NewHTTPClient("h")
	} else {
		cl, err = rig.NewClient("a")
	}
	if err != nil {
		return nil, "client"
	}
	other, err := rig.NewClient("b")
	if err != nil {
		return nil, "client b"
	}
	hooks.Reset(c.Rules...)
	defer hooks.Off()

	// the untouched second client: one gated call and one paced subscription
	oc := rig.Go(other, "call", rig.Tok("other-call"), Plan{Gate: true})
	os := rig.Go(other, "sub", rig.Tok("other-sub"), Plan{N: 4, Pace: true, Linger: false})
	rig.W.WaitStarted(oc.Tok, 3*time.Second)

	if c.SlowNotify {
		sn := rig.Go(cl, "notify", rig.Tok("slow-notify"), Plan{Gate: true})
		rig.W.WaitStarted(sn.Tok, 2*time.Second)
		defer rig.W.Release(sn.Tok)
	}
	type st struct {
		c06Call
		tok    string
		ctx    context.Context
		cancel context.CancelFunc
		p      *Pending
	}
	var calls []*st
	var sharedCtx context.Context
	var sharedCancel context.CancelFunc
	for i, cc := range c.Calls {
		s := &st{c06Call: cc, tok: rig.Tok(fmt.Sprintf("%s%d", cc.Kind, i))}
		s.ctx, s.cancel = context.WithCancel(context.Background())
		if c.SharedCtx && cc.Kind == "sub" && cc.Cancel == "established" {
			if sharedCtx == nil {
				sharedCtx, sharedCancel = context.WithCancel(context.Background())
			}
			type subKey struct{}
			s.ctx, s.cancel = context.WithValue(sharedCtx, subKey{}, i), sharedCancel
		}
		if cc.Cancel == "before" {
			s.cancel()
		}
		p := &Pending{Kind: cc.Kind, Tok: s.tok, Done: make(chan struct{}), Cancel: s.cancel, Issued: time.Now()}
		s.p = p
		plan := Plan{Gate: true}
		if cc.Kind == "sub" {
			plan = Plan{N: 6, Pace: true, Linger: true, Early: 1}
			if cc.Cancel == "pending" || cc.Cancel == "before" {
				plan.Gate = true // the subscribing call is still unanswered when it is cancelled
			} else {
				plan.Bare = cc.Bare
			}
			plan.ViaAlias = cc.Alias
		}
		go func(s *st, plan Plan) {
			defer close(p.Done)
			if s.Kind == "sub" {
				p.Ch, p.Err = cl.C.OpenSub(s.ctx, s.tok, plan)
			} else {
				p.Res, p.Err = cl.C.Call(s.ctx, s.tok, plan)
			}
		}(s, plan)
		calls = append(calls, s)
	}
	// wait until the handlers run (calls cancelled beforehand may never start) and subscriptions are established
	for _, s := range calls {
		if s.Cancel == "before" {
			rig.W.WaitStarted(s.tok, 150*time.Millisecond)
			continue
		}
		if !rig.W.WaitStarted(s.tok, 3*time.Second) {
			return violf("healthy-link-wedged", "the handler of %s %s did not start within 3s on a healthy connection; hook history: %v", s.Kind, s.tok, hooks.History(20)), ""
		}
		if s.Kind == "sub" && s.Cancel != "pending" {
			select {
			case <-s.p.Done:
			case <-time.After(3 * time.Second):
				return violf("healthy-link-wedged", "subscription %s was not established within 3s on a healthy connection", s.tok), ""
			}
			if s.p.Err != nil {
				return nil, "subscription failed: " + s.p.Err.Error()
			}
		}
	}
	// cancel the chosen subset
	for _, s := range calls {
		switch s.Cancel {
		case "running", "established", "pending":
			s.cancel()
		case "race":
			go s.cancel()
			rig.W.Release(s.tok)
		}
	}
	// let cancellations propagate: later-issued probes on the same client follow the cancel messages
	probeOK := 0
	for i := 0; i < 3; i++ {
		if err := rig.Probe(cl, 2*time.Second); err == nil {
			probeOK++
		}
		time.Sleep(2 * time.Millisecond)
	}
	if probeOK == 0 {
		return violf("healthy-link-wedged", "three plain calls in a row failed on a healthy connection after the cancellations; hook history: %v", hooks.History(20)), ""
	}
	// A: cancellation reaches the cancelled handlers
	for _, s := range calls {
		if s.Cancel == "none" || s.Cancel == "race" {
			continue
		}
		if rig.W.Started(s.tok) == 0 {
			continue // never reached the server (cancelled before it was sent): nothing to cancel
		}
		hctx := rig.W.Ctx(s.tok)
		deadline := time.Now().Add(2 * time.Second)
		for hctx.Err() == nil && time.Now().Before(deadline) && rig.W.Running(s.tok) {
			time.Sleep(time.Millisecond)
		}
		if hctx.Err() == nil && rig.W.Running(s.tok) {
			return violf("cancel-not-delivered", "%s %s was cancelled (%s) but its handler's context is still live after 3 probes and 2s; hook history: %v", s.Kind, s.tok, s.Cancel, hooks.History(20)), ""
		}
	}
	if c.HTTPTimeout && c.Transport == "http" {
		time.Sleep(250 * time.Millisecond)
	}
	// B: nothing else was cancelled
	check := func(tok, what string) *Violation {
		if rig.W.Started(tok) > 0 && rig.W.Running(tok) {
			if err := rig.W.Ctx(tok).Err(); err != nil {
				return violf("spurious-cancel", "%s %s was not cancelled by its caller but its handler's context is done (%v) while the call is in flight; hook history: %v", what, tok, err, hooks.History(20))
			}
		}
		return nil
	}
	for _, s := range calls {
		if s.Cancel == "none" {
			if v := check(s.tok, s.Kind+" on the same connection"); v != nil {
				return v, ""
			}
		}
	}
	if v := check(oc.Tok, "call on another connection"); v != nil {
		return v, ""
	}
	// finish: streams of non-cancelled subscriptions run to completion without ever seeing a done context
	for _, s := range calls {
		if s.Kind == "sub" {
			rig.W.Release(s.tok) // only gated (pending / before) subscriptions wait on it
			rig.W.Tick(s.tok, 10)
		} else {
			rig.W.Release(s.tok)
		}
	}
	rig.W.Tick(os.Tok, 10)
	rig.W.Release(oc.Tok)
	for _, s := range calls {
		if s.Cancel != "none" {
			continue
		}
		if s.Kind == "call" {
			select {
			case <-s.p.Done:
			case <-time.After(5 * time.Second):
				return violf("uncancelled-call-hangs", "call %s (not cancelled) did not return", s.tok), ""
			}
			if s.p.Err != nil {
				return violf("uncancelled-call-failed", "call %s (not cancelled) failed: %v", s.tok, s.p.Err), ""
			}
			if v := s.p.CheckOwn(); v != nil {
				return v, ""
			}
		} else {
			// all 6 values, then the handler lingers until its context ends: cancel now (legitimately) and read to the close
			items, _ := drain(s.p.Ch, 300*time.Millisecond)
			deadline := time.Now().Add(3 * time.Second)
			for len(items) < 6 && time.Now().Before(deadline) {
				more, _ := drain(s.p.Ch, 100*time.Millisecond)
				items = append(items, more...)
			}
			if errs := rig.W.CtxErrDuringStream(s.tok); len(errs) > 0 {
				return violf("spurious-cancel", "subscription %s (not cancelled) saw a done context while streaming: %v", s.tok, errs), ""
			}
			if len(items) != 6 {
				return violf("uncancelled-stream-incomplete", "subscription %s (not cancelled) delivered %d of 6 values", s.tok, len(items)), ""
			}
			if err := rig.W.Ctx(s.tok).Err(); err != nil {
				return violf("spurious-cancel", "subscription %s (not cancelled) has a done handler context after its values were delivered: %v", s.tok, err), ""
			}
			s.cancel()
		}
	}
	// a call cancelled while its handler was running, and whose handler finished its work regardless (it was released
	// just now), still gets its own answer over WebSocket: cancellation tells the handler, it does not detach the caller
	if c.Transport == "ws" {
		for _, s := range calls {
			if s.Kind != "call" || (s.Cancel != "running" && s.Cancel != "race") || rig.W.Started(s.tok) == 0 {
				continue
			}
			select {
			case <-s.p.Done:
			case <-time.After(5 * time.Second):
				return violf("cancelled-call-hangs", "call %s was cancelled while running; its handler has finished since, but the call did not return within 5s", s.tok), ""
			}
			if s.p.Err != nil && strings.Contains(s.p.Err.Error(), "id didn't match") {
				return violf("cancelled-call-wrong-answer", "call %s was cancelled while running (%s) and its handler then returned its result; the caller got %v", s.tok, s.Cancel, s.p.Err), ""
			}
			if s.p.Err == nil {
				if v := s.p.CheckOwn(); v != nil {
					return v, ""
				}
			}
		}
	}
	select {
	case <-oc.Done:
	case <-time.After(5 * time.Second):
		return violf("uncancelled-call-hangs", "call on the second client did not return"), ""
	}
	if oc.Err != nil {
		return violf("uncancelled-call-failed", "call on the second client failed: %v", oc.Err), ""
	}
	if os.Returned() && os.Err == nil {
		items, closed := drain(os.Ch, 3*time.Second)
		if errs := rig.W.CtxErrDuringStream(os.Tok); len(errs) > 0 || !closed || len(items) != 4 {
			return violf("spurious-cancel", "subscription on the second client: %d of 4 values, closed=%v, ctx errors %v", len(items), closed, errs), ""
		}
	}
	return nil, ""
}

// ---- cancel messages from a peer that is not the library's own client ------------------------------------------

// c06Raw: a raw WebSocket peer puts two calls in flight and cancels the first with an xrpc.cancel frame shaped as
// described; the second stays untouched and is then cancelled with a plain frame.
type c06Raw struct {
	CancelID   string `json:"cancel_id"`   // JSON for the cancel frame's own "id" member ("" = absent, as the library's client sends it)
	TargetForm string `json:"target_form"` // how the cancelled call's id is written: int | float | string
}

func runC06Raw(c c06Raw) *Violation {
	rig, err := NewRig(RigOpts{NoProxy: true})
	if err != nil {
		return nil
	}
	defer rig.Close()
	conn, _, err := websocket.DefaultDialer.Dial("ws://"+rig.Addr(), nil)
	if err != nil {
		return nil
	}
	defer conn.Close()
	go func() {
		for {
			if _, _, err := conn.ReadMessage(); err != nil {
				return
			}
		}
	}()
	ids := []string{"1", "2"}
	if c.TargetForm == "string" {
		ids = []string{`"a"`, `"b"`}
	}
	toks := []string{rig.Tok("raw"), rig.Tok("raw")}
	for i, id := range ids {
		frame := fmt.Sprintf(`{"jsonrpc":"2.0","id":%s,"method":"Tok.Call","params":[%s,{"gate":true,"watch_ctx":true}]}`, id, mustJSON(toks[i]))
		if conn.WriteMessage(websocket.TextMessage, []byte(frame)) != nil {
			return nil
		}
	}
	for _, tok := range toks {
		if !rig.W.WaitStarted(tok, 3*time.Second) {
			return nil
		}
	}
	target := ids[0]
	if c.TargetForm == "float" {
		target = "1.0"
	}
	cancelFrame := func(own, target string) string {
		if own == "" {
			return fmt.Sprintf(`{"jsonrpc":"2.0","method":"xrpc.cancel","params":[%s]}`, target)
		}
		return fmt.Sprintf(`{"jsonrpc":"2.0","id":%s,"method":"xrpc.cancel","params":[%s]}`, own, target)
	}
	if conn.WriteMessage(websocket.TextMessage, []byte(cancelFrame(c.CancelID, target))) != nil {
		return nil
	}
	ctx0, ctx1 := rig.W.Ctx(toks[0]), rig.W.Ctx(toks[1])
	deadline := time.Now().Add(2 * time.Second)
	for ctx0.Err() == nil && time.Now().Before(deadline) {
		time.Sleep(time.Millisecond)
	}
	if ctx0.Err() == nil {
		return violf("cancel-not-delivered", "a peer cancelled call %s with the frame %s, but the handler's context is still live after 2s", ids[0], cancelFrame(c.CancelID, target))
	}
	time.Sleep(20 * time.Millisecond)
	if ctx1.Err() != nil {
		return violf("spurious-cancel", "the cancel frame %s for call %s also cancelled call %s", cancelFrame(c.CancelID, target), ids[0], ids[1])
	}
	conn.WriteMessage(websocket.TextMessage, []byte(cancelFrame("", ids[1])))
	deadline = time.Now().Add(2 * time.Second)
	for ctx1.Err() == nil && time.Now().Before(deadline) {
		time.Sleep(time.Millisecond)
	}
	if ctx1.Err() == nil {
		return violf("cancel-not-delivered", "a plain cancel frame for call %s sent after %s did not reach its handler within 2s", ids[1], cancelFrame(c.CancelID, target))
	}
	return nil
}

func c06NT(c c06Case) (bool, []string) {
	cl := []string{"tr_" + c.Transport}
	if c.HTTPTimeout && c.Transport == "http" {
		cl = append(cl, "http_client_with_ws_timeout")
	}
	for _, cc := range c.Calls {
		if cc.Kind == "sub" && cc.Alias {
			cl = append(cl, "sub_via_alias")
			break
		}
	}
	nCancel, nKeep := 0, 0
	for _, cc := range c.Calls {
		cl = append(cl, "cancel_"+cc.Cancel, "kind_"+cc.Kind)
		if cc.Cancel == "none" {
			nKeep++
		} else {
			nCancel++
		}
	}
	if len(c.Rules) > 0 {
		cl = append(cl, "with_delays")
	}
	if c.SlowNotify {
		cl = append(cl, "behind_slow_notification")
	}
	if c.SharedCtx {
		cl = append(cl, "subscriptions_share_a_context")
	}
	return len(c.Calls) >= 2 && nCancel > 0 && nKeep > 0, cl
}

const c06Rule = "1-6 gated unary calls and 0-3 paced subscriptions (directly, through the channel-only method, or through a server-side alias) on one client (ws; 1/5 of cases http with unary calls only, half of those through a client built with a 120 ms WebSocket timeout and held in flight for longer) plus one call and one subscription on a second client that is never touched; every call is assigned none | cancelled-before-issue | cancelled-while-running | cancel-racing-release | cancelled-after-subscription-established; delays at cancel.send / call.dispatch / write.locked; a raw WebSocket peer cancelling one of two calls with xrpc.cancel frames that carry no id, a numeric, string or fractional id of their own, and the target id written as integer, float or string; optionally the cancelled subscriptions share one context; optionally a notification whose handler keeps running was sent on the same connection before the cancellations. Grid: every strict non-empty subset of 4 calls cancelled, per instant. Non-trivial = >=2 concurrent calls with a strict, non-empty subset cancelled; distinct by descriptor hash"

func TestC06(t *testing.T) {
	rec := NewRec("C06", c06Rule)
	defer rec.Finish(t)
	rec.EnableJournal()
	rec.RequireClass("sub_via_alias", "http_client_with_ws_timeout", "subscriptions_share_a_context", "cancel_frame_with_id", "behind_slow_notification", "churn", "cancel_pending", "cancel_before", "cancel_running", "cancel_race", "cancel_established", "cancel_none", "tr_http", "tr_ws", "with_delays")
	run := func(ft failer, c c06Case) {
		nt, cl := c06NT(c)
		rec.Run(ft, c, nt, cl, func() *Violation {
			v, inc := runC06(c)
			if v != nil && v.Key != "spurious-cancel" && v.Key != "foreign-result" {
				if v2, _ := runC06(c); v2 == nil {
					rec.Class("unconfirmed", 1)
					return nil
				}
			}
			if inc != "" {
				rec.Class("undecided", 1)
			}
			return v
		})
	}
	t.Run("grid", func(t *testing.T) {
		sh, nsh := shard()
		k := 0
		for _, inst := range []string{"running", "before", "race"} {
			for mask := 1; mask < 15; mask++ { // strict non-empty subsets of 4 unary calls
				k++
				if k%nsh != sh || (!thorough() && (mask%3 != envInt("VERIF_SEED", 1)%3)) {
					continue
				}
				var calls []c06Call
				for i := 0; i < 4; i++ {
					cc := c06Call{Kind: "call", Cancel: "none"}
					if mask&(1<<i) != 0 {
						cc.Cancel = inst
					}
					calls = append(calls, cc)
				}
				run(t, c06Case{Transport: "ws", Calls: calls})
				if inst != "race" && mask%4 == 1 {
					run(t, c06Case{Transport: "http", Calls: calls})
					if mask%4 == 1 {
						run(t, c06Case{Transport: "http", Calls: calls, HTTPTimeout: true})
					}
				}
			}
		}
		for mask := 1; mask < 7; mask++ { // subscriptions: strict non-empty subsets of 3, plus an uncancelled unary call
			calls := []c06Call{{Kind: "call", Cancel: "none"}}
			for i := 0; i < 3; i++ {
				cc := c06Call{Kind: "sub", Cancel: "none", Bare: (mask+i)%2 == 0, Alias: (mask+i)%3 == 0}
				if mask&(1<<i) != 0 {
					cc.Cancel = "established"
				}
				calls = append(calls, cc)
			}
			run(t, c06Case{Transport: "ws", Calls: calls, SlowNotify: mask%2 == 1})
			if mask == 3 || mask == 5 || mask == 6 {
				run(t, c06Case{Transport: "ws", Calls: calls, SharedCtx: true})
			}
		}
		run(t, c06Case{Transport: "ws", SlowNotify: true, Calls: []c06Call{{Kind: "call", Cancel: "running"}, {Kind: "call", Cancel: "none"}, {Kind: "sub", Cancel: "established"}, {Kind: "call", Cancel: "race"}}})
		run(t, c06Case{Transport: "ws", Calls: []c06Call{{Kind: "sub", Cancel: "pending"}, {Kind: "sub", Cancel: "none"}, {Kind: "call", Cancel: "none"}, {Kind: "sub", Cancel: "before"}}})
		// subscription churn: open / end / open / end sequences (see runC06Churn)
		for _, ops := range [][]c06Op{
			{{"open_sub", 0}, {"open_sub", 0}, {"finish", 0}, {"open_sub", 0}, {"finish", 1}, {"open_call", 0}, {"cancel", 0}, {"open_sub", 0}, {"finish", 1}},
			{{"open_sub", 0}, {"open_sub", 0}, {"open_sub", 0}, {"cancel", 1}, {"open_sub", 0}, {"cancel", 2}, {"finish", 0}, {"open_sub", 0}, {"finish", 1}},
			{{"open_call", 0}, {"open_sub", 0}, {"open_call", 0}, {"finish", 0}, {"open_sub", 0}, {"cancel", 1}, {"open_call", 0}, {"finish", 0}, {"finish", 0}},
		} {
			ch := c06Churn{Ops: ops}
			rec.Run(t, ch, true, []string{"churn"}, func() *Violation { return runC06Churn(ch) })
		}
	})
	rec.Rapid(t, "rapid-churn", func(rt *rapid.T) {
		n := rapid.IntRange(3, 14).Draw(rt, "nops")
		var ch c06Churn
		for i := 0; i < n; i++ {
			ch.Ops = append(ch.Ops, c06Op{Op: rapid.SampledFrom([]string{"open_sub", "open_sub", "open_call", "cancel", "finish", "finish"}).Draw(rt, fmt.Sprintf("op%d", i)), Idx: rapid.IntRange(0, 5).Draw(rt, fmt.Sprintf("idx%d", i))})
		}
		rec.Run(rt, ch, true, []string{"churn"}, func() *Violation {
			v := runC06Churn(ch)
			if v != nil && v.Key != "spurious-cancel" {
				if runC06Churn(ch) == nil {
					return nil
				}
			}
			return v
		})
	})
	t.Run("raw-peer", func(t *testing.T) {
		for _, own := range []string{"", "3", `"c"`, "2.5", "null"} {
			for _, form := range []string{"int", "float", "string"} {
				c := c06Raw{CancelID: own, TargetForm: form}
				cl := []string{"raw_peer_cancel"}
				if own != "" && own != "null" {
					cl = append(cl, "cancel_frame_with_id")
				}
				rec.Run(t, c, true, cl, func() *Violation { return runC06Raw(c) })
			}
		}
	})
	rec.Rapid(t, "rapid", func(rt *rapid.T) {
		c := c06Case{Transport: "ws"}
		if rapid.IntRange(0, 4).Draw(rt, "http") == 0 {
			c.Transport = "http"
			c.HTTPTimeout = rapid.Bool().Draw(rt, "httptimeout")
		}
		c.SlowNotify = c.Transport == "ws" && rapid.IntRange(0, 3).Draw(rt, "slownotify") == 0
		c.SharedCtx = c.Transport == "ws" && rapid.IntRange(0, 2).Draw(rt, "sharedctx") == 0
		n := rapid.IntRange(1, 6).Draw(rt, "ncalls")
		for i := 0; i < n; i++ {
			c.Calls = append(c.Calls, c06Call{Kind: "call", Cancel: rapid.SampledFrom([]string{"none", "none", "before", "running", "running", "race"}).Draw(rt, fmt.Sprintf("cancel%d", i))})
		}
		if c.Transport == "ws" {
			m := rapid.IntRange(0, 3).Draw(rt, "nsubs")
			for i := 0; i < m; i++ {
				c.Calls = append(c.Calls, c06Call{Kind: "sub", Cancel: rapid.SampledFrom([]string{"none", "established", "established", "pending", "before"}).Draw(rt, fmt.Sprintf("scancel%d", i)),
					Bare: rapid.IntRange(0, 2).Draw(rt, fmt.Sprintf("sbare%d", i)) == 0, Alias: rapid.IntRange(0, 2).Draw(rt, fmt.Sprintf("salias%d", i)) == 0})
			}
			nr := rapid.IntRange(0, 3).Draw(rt, "nrules")
			for i := 0; i < nr; i++ {
				c.Rules = append(c.Rules, &HookRule{Point: rapid.SampledFrom([]string{"cancel.send", "call.dispatch", "write.locked", "req.accepted"}).Draw(rt, fmt.Sprintf("pt%d", i)),
					Occ: rapid.IntRange(0, 4).Draw(rt, fmt.Sprintf("occ%d", i)), DelayU: rapid.SampledFrom([]int{100, 1000, 4000}).Draw(rt, fmt.Sprintf("d%d", i))})
			}
		}
		run(rt, c)
	})
}

func TestC06Replay(t *testing.T) {
	Replay(t, "C06", 20, func(raw json.RawMessage) *Violation {
		var probe map[string]json.RawMessage
		_ = json.Unmarshal(raw, &probe)
		if _, ok := probe["target_form"]; ok {
			var rc c06Raw
			_ = json.Unmarshal(raw, &rc)
			return runC06Raw(rc)
		}
		if _, ok := probe["ops"]; ok {
			var ch c06Churn
			_ = json.Unmarshal(raw, &ch)
			return runC06Churn(ch)
		}
		var c c06Case
		if err := json.Unmarshal(raw, &c); err != nil {
			return nil
		}
		v, _ := runC06(c)
		return v
	})
}

// ---- churn: a history of opening and ending calls/subscriptions on one connection ----------------

type c06Op struct {
	Op  string `json:"op"`  // open_sub | open_call | cancel | finish
	Idx int    `json:"idx"` // which open item (modulo the number of open items)
}

type c06Churn struct {
	Ops []c06Op `json:"ops"`
}

// runC06Churn executes the history step by step; after every step every handler that is still open and
// was not cancelled by its caller must have a live context (the invariant of the state machine), and a
// cancelled one must see its context done.
func runC06Churn(c c06Churn) *Violation {
	rig, err := NewRig(RigOpts{NoProxy: true})
	if err != nil {
		return nil
	}
	defer rig.Close()
	cl, err := rig.NewClient("a")
	if err != nil {
		return nil
	}
	type item struct {
		kind   string
		tok    string
		cancel context.CancelFunc
		p      *Pending
	}
	var open []*item
	step := 0
	invariant := func(after string) *Violation {
		if err := rig.Probe(cl, 2*time.Second); err != nil {
			return violf("probe-failed", "step %d (%s): a plain call failed on a healthy connection: %v", step, after, err)
		}
		for _, it := range open {
			if !rig.W.Running(it.tok) {
				continue
			}
			if err := rig.W.Ctx(it.tok).Err(); err != nil {
				return violf("spurious-cancel", "after step %d (%s): %s %s is open and was not cancelled by its caller, but its handler context is done (%v)", step, after, it.kind, it.tok, err)
			}
		}
		return nil
	}
	for i, op := range c.Ops {
		step = i
		switch op.Op {
		case "open_sub", "open_call":
			it := &item{kind: "sub", tok: rig.Tok(fmt.Sprintf("k%d", i))}
			ctx, cancel := context.WithCancel(context.Background())
			it.cancel = cancel
			p := &Pending{Kind: "sub", Tok: it.tok, Done: make(chan struct{})}
			it.p = p
			if op.Op == "open_call" {
				it.kind, p.Kind = "call", "call"
				go func() { defer close(p.Done); p.Res, p.Err = cl.C.Call(ctx, it.tok, Plan{Gate: true}) }()
				if !rig.W.WaitStarted(it.tok, 3*time.Second) {
					return nil
				}
			} else {
				go func() { defer close(p.Done); p.Ch, p.Err = cl.C.Sub(ctx, it.tok, Plan{N: 3, Early: 1, Pace: true}) }()
				select {
				case <-p.Done:
				case <-time.After(3 * time.Second):
					return violf("subscribe-hangs", "step %d: subscribing call did not return on a healthy connection", i)
				}
				if p.Err != nil {
					return violf("subscribe-failed", "step %d: subscription failed on a healthy connection: %v", i, p.Err)
				}
			}
			open = append(open, it)
		case "cancel", "finish":
			if len(open) == 0 {
				continue
			}
			k := op.Idx % len(open)
			it := open[k]
			open = append(open[:k], open[k+1:]...)
			if op.Op == "cancel" {
				hctx := rig.W.Ctx(it.tok)
				it.cancel()
				_ = rig.Probe(cl, 2*time.Second)
				deadline := time.Now().Add(2 * time.Second)
				for hctx.Err() == nil && rig.W.Running(it.tok) && time.Now().Before(deadline) {
					time.Sleep(time.Millisecond)
				}
				if hctx.Err() == nil && rig.W.Running(it.tok) {
					return violf("cancel-not-delivered", "step %d: %s %s was cancelled but its handler context is still live after 2s", i, it.kind, it.tok)
				}
				rig.W.Release(it.tok)
				rig.W.Tick(it.tok, 5)
			} else if it.kind == "call" {
				rig.W.Release(it.tok)
				select {
				case <-it.p.Done:
				case <-time.After(3 * time.Second):
					return violf("uncancelled-call-hangs", "step %d: call %s did not return after its handler was released", i, it.tok)
				}
				if it.p.Err != nil {
					return violf("uncancelled-call-failed", "step %d: call %s failed: %v", i, it.tok, it.p.Err)
				}
				if v := it.p.CheckOwn(); v != nil {
					return v
				}
			} else {
				// let the handler send its remaining values and close the stream itself
				rig.W.Tick(it.tok, 5)
				items, closed := drain(it.p.Ch, 3*time.Second)
				if errs := rig.W.CtxErrDuringStream(it.tok); len(errs) > 0 {
					return violf("spurious-cancel", "step %d: subscription %s (never cancelled) saw a done context while streaming: %v", i, it.tok, errs)
				}
				if !closed || len(items) != 3 {
					return violf("uncancelled-stream-incomplete", "step %d: subscription %s delivered %d of 3 values (closed=%v)", i, it.tok, len(items), closed)
				}
				it.cancel()
			}
		}
		if v := invariant(op.Op); v != nil {
			return v
		}
	}
	for _, it := range open {
		it.cancel()
		rig.W.Release(it.tok)
	}
	return nil
}
