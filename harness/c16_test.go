package harness

// C16 - reverse calls reach the calling client and fail, not block, once it is gone.
//
// Generator: 1-5 simultaneously connected clients, each with a reverse handler
// that returns its own identity; concurrent forward calls each issuing 1-3
// reverse calls while pending (plus calls through a tagged field resolved by a
// client-side alias); connection loss at a drawn frame of the reverse exchange
// or while a reverse call is blocked in the client; {http, server without the
// reverse option}. Oracle: every identity a forward call collected is that of
// the client which issued it; after the cut every reverse call returns (its
// handler finishes); without WebSocket / option no reverse client is present.

import (
	"context"
	"encoding/json"
	"errors"
	"fmt"
	"net/http/httptest"
	"strings"
	"testing"
	"time"

	jsonrpc "github.com/filecoin-project/go-jsonrpc"
	"pgregory.net/rapid"
)

type c16Call struct {
	Client  int  `json:"client"`
	Reverse int  `json:"reverse"`
	Alias   bool `json:"alias,omitempty"`
	Gate    bool `json:"gate,omitempty"`
	Slow    bool `json:"slow,omitempty"`   // blocked in a reverse call when the cut happens
	Retry   bool `json:"retry,omitempty"`  // the reverse calls go through retry-tagged fields of the reverse client struct
	Notify  bool `json:"notify,omitempty"` // the forward call is a notification (its handler still makes the reverse calls)
	Burst   int  `json:"burst,omitempty"`  // concurrent reverse calls with 1 MiB arguments into a client whose link is stalled, then cut
}

type c16Case struct {
	Mode    string    `json:"mode"` // ws | http | nooption
	Clients int       `json:"clients"`
	Calls   []c16Call `json:"calls"`
	Cut     *Fault    `json:"cut,omitempty"` // Conn = index of the client whose link is cut
	// Detach: the server's request contexts are not cancelled when a connection goes away (middleware in front of it)
	Detach bool `json:"detach,omitempty"`
}

func runC16(c c16Case) (*Violation, string) {
	rig, err := NewRig(RigOpts{DetachCtx: c.Detach, Reverse: c.Mode != "nooption", BackoffMin: 5 * time.Millisecond, BackoffMax: 20 * time.Millisecond})
	if err != nil {
		return nil, "rig"
	}
	defer rig.Close()
	if c.Mode == "nooption" {
		// the client still offers a handler; the server just was not built with WithReverseClient
		rig.Opts.Reverse = true
	}
	var clients []*RigClient
	for i := 0; i < c.Clients; i++ {
		var cl *RigClient
		if c.Mode == "http" {
			cl, err = rig.NewHTTPClient(fmt.Sprintf("client%d", i))
		} else {
			cl, err = rig.NewClient(fmt.Sprintf("client%d", i))
		}
		if err != nil {
			return nil, "client"
		}
		if cl.Rev != nil {
			cl.Rev.Gate = make(chan struct{})
		}
		clients = append(clients, cl)
	}
	defer func() {
		for _, cl := range clients {
			if cl.Rev != nil {
				func() { defer func() { recover() }(); close(cl.Rev.Gate) }()
			}
		}
	}()
	if c.Cut != nil && c.Mode == "ws" {
		f := *c.Cut
		rig.Proxy.AddFault(&f)
	}
	var ps []*Pending
	for i, cc := range c.Calls {
		cl := clients[cc.Client%len(clients)]
		tok := rig.Tok(fmt.Sprintf("f%d", i))
		if cc.Burst > 0 && c.Cut != nil && cc.Client%len(clients) == c.Cut.Conn {
			// the link stops moving data first (both directions), so the server's connection loop gets stuck in a write
			// while further reverse calls pile up behind it; the cut itself follows below
			p := rig.Go(cl, "call", tok, Plan{Gate: true, RevBurst: cc.Burst})
			rig.W.WaitStarted(tok, time.Second)
			rig.Proxy.mu.Lock()
			pc := rig.Proxy.conns[c.Cut.Conn]
			rig.Proxy.mu.Unlock()
			pc.kill("stall")
			rig.W.Release(tok)
			time.Sleep(150 * time.Millisecond)
			ps = append(ps, p)
			continue
		}
		kind := "call"
		if cc.Notify && c.Mode == "ws" {
			kind = "notify"
		}
		ps = append(ps, rig.Go(cl, kind, tok, Plan{Gate: cc.Gate, Reverse: cc.Reverse, RevAlias: cc.Alias, RevSlow: cc.Slow, RevRetry: cc.Retry}))
	}
	// gated calls make their reverse calls only after all forward calls are pending (nesting under concurrency)
	for i, cc := range c.Calls {
		if cc.Gate {
			d := 2 * time.Second
			if c.Cut != nil {
				d = 150 * time.Millisecond // the request may have been cut off
			}
			rig.W.WaitStarted(ps[i].Tok, d)
		}
	}
	for i, cc := range c.Calls {
		if cc.Gate {
			rig.W.Release(ps[i].Tok)
		}
	}
	cutConn := -1
	if c.Cut != nil && c.Mode == "ws" {
		cutConn = c.Cut.Conn
		// wait for the slow reverse calls to be in progress, then make sure the cut happened
		for i, cc := range c.Calls {
			if cc.Slow || cc.Burst > 0 {
				deadline := time.Now().Add(2 * time.Second)
				for !rig.W.InReverse(ps[i].Tok) && time.Now().Before(deadline) && rig.W.Running(ps[i].Tok) {
					time.Sleep(time.Millisecond)
				}
			}
		}
		if rig.Proxy.WaitFault(300*time.Millisecond) == nil {
			rig.Proxy.mu.Lock()
			var pc *pconn
			if cutConn < len(rig.Proxy.conns) {
				pc = rig.Proxy.conns[cutConn]
			}
			rig.Proxy.mu.Unlock()
			rig.Proxy.ClearFaults()
			if pc != nil {
				pc.kill(c.Cut.Kind)
			}
		}
	} else {
		// nobody is cut: release the slow client-side handlers so that everything can finish
		for _, cl := range clients {
			if cl.Rev != nil {
				close(cl.Rev.Gate)
				cl.Rev.Gate = nil
			}
		}
	}
	// every server-side handler must finish: a reverse call into a vanished client returns an error instead of blocking
	allow := 5 * time.Second
	for _, cc := range c.Calls {
		if cc.Burst > 0 {
			// dozens of megabyte-sized arguments have to be marshalled before those reverse calls even reach the
			// connection; under the race detector on a saturated machine that alone can take seconds
			allow = 20 * time.Second
		}
	}
	deadline := time.Now().Add(allow)
	for i, p := range ps {
		if cc := c.Calls[i]; cutConn >= 0 && cc.Slow && cc.Client%len(clients) != cutConn {
			continue // blocked in a healthy client's slow handler by design; released at teardown
		}
		for rig.W.Running(p.Tok) && time.Now().Before(deadline) {
			time.Sleep(time.Millisecond)
		}
		if rig.W.Running(p.Tok) {
			cc := c.Calls[i]
			if cutConn >= 0 && cc.Client%len(clients) == cutConn {
				return violf("reverse-call-blocks-after-loss", "handler of %s (client %d, whose link was cut: %+v) is still blocked in a reverse call after %v", p.Tok, cc.Client, c.Cut, allow), ""
			}
			if cutConn >= 0 && cc.Slow {
				continue // blocked in a healthy client's slow handler by design; released at teardown
			}
			return violf("reverse-call-hangs", "handler of %s (client %d, healthy link) did not finish within 5s", p.Tok, cc.Client), ""
		}
	}
	for i, p := range ps {
		cc := c.Calls[i]
		ci := cc.Client % len(clients)
		if cutConn >= 0 && (ci == cutConn || cc.Slow) || cc.Burst > 0 {
			continue // the forward call itself may fail or be left behind; only non-blocking was required
		}
		select {
		case <-p.Done:
		case <-time.After(5 * time.Second):
			return violf("forward-call-hangs", "forward call %s on client %d (healthy link) did not return", p.Tok, ci), ""
		}
		if p.Err != nil {
			return violf("forward-call-failed", "forward call %s on client %d (healthy link) failed: %v", p.Tok, ci, p.Err), ""
		}
		if p.Kind == "notify" {
			// no result travels back: the handler must have run to its end with every reverse call answered
			deadline := time.Now().Add(5 * time.Second)
			for rig.W.Finished(p.Tok) < 1 && time.Now().Before(deadline) {
				time.Sleep(time.Millisecond)
			}
			if rig.W.Finished(p.Tok) < 1 {
				return violf("reverse-call-hangs", "the handler of forward notification %s (client %d, healthy link) has not finished after 5s (it makes %d reverse calls)", p.Tok, ci, cc.Reverse), ""
			}
			if errs := rig.W.RevErrs(p.Tok); len(errs) > 0 {
				return violf("reverse-call-failed", "reverse calls made by the handler of forward notification %s failed: %v", p.Tok, errs), ""
			}
			continue
		}
		if v := p.CheckOwn(); v != nil {
			return v, ""
		}
		var want []string
		id := clients[ci].ID
		for k := 0; k < cc.Reverse; k++ {
			want = append(want, id+"/"+p.Tok)
		}
		if cc.Alias {
			if SingleRevHandler(id) {
				want = append(want, id+"/alias/"+p.Tok+"&!E2")
			} else {
				want = append(want, id+"/alias/"+p.Tok+"&"+id+"/other/"+p.Tok)
			}
		}
		if cc.Slow {
			want = append(want, id+"/slow/"+p.Tok)
		}
		if c.Mode != "ws" {
			for k := range want {
				want[k] = "!absent"
			}
		}
		got := p.Res.Rev
		if got != strings.Join(want, ",") {
			key := "reverse-wrong-client"
			if c.Mode != "ws" {
				key = "reverse-client-present"
			} else if strings.Contains(strings.ReplaceAll(got, "&!E2", ""), "!") {
				key = "reverse-call-failed"
			}
			return violf(key, "forward call %s issued by %s collected reverse identities %q, expected %q", p.Tok, id, got, strings.Join(want, ",")), ""
		}
	}
	return nil, ""
}

// ---- server with a custom method-name formatter: reverse calls are named by it, whatever the option order --------

type c16Fmt struct {
	Formatter string `json:"formatter"` // nons+lower | custom_sep | custom_upper (see c12Formatters)
	RevFirst  bool   `json:"rev_first"` // WithReverseClient is listed before WithServerMethodNameFormatter
	Clients   int    `json:"clients"`
}

type c16FmtProxy struct {
	Who func(ctx context.Context, tok string) (string, error)
}

type c16FmtImpl struct{ id string }

func (h *c16FmtImpl) Who(ctx context.Context, tok string) (string, error) {
	return h.id + "/" + tok, nil
}

type c16FmtServer struct{}

func (c16FmtServer) Ask(ctx context.Context, tok string) (string, error) {
	rc, ok := jsonrpc.ExtractReverseClient[c16FmtProxy](ctx)
	if !ok {
		return "", errors.New("no reverse client")
	}
	return rc.Who(ctx, tok)
}

func runC16Formatter(c c16Fmt) *Violation {
	f := c12Formatter(c.Formatter)
	opts := []jsonrpc.ServerOption{jsonrpc.WithServerMethodNameFormatter(f), jsonrpc.WithReverseClient[c16FmtProxy]("Peer")}
	if c.RevFirst {
		opts[0], opts[1] = opts[1], opts[0]
	}
	srv := jsonrpc.NewServer(opts...)
	srv.Register("Srv", c16FmtServer{})
	ts := httptest.NewServer(srv)
	defer closeTestServer(ts)
	for i := 0; i < c.Clients; i++ {
		id := fmt.Sprintf("fmtclient%d", i)
		var cl struct {
			Ask func(ctx context.Context, tok string) (string, error)
		}
		// the client-side handler lives in a namespace of its own; the name the server's formatter produces for the
		// proxy's method is mapped onto it by an alias, so only that name reaches it
		closer, err := jsonrpc.NewMergeClient(context.Background(), "ws://"+ts.Listener.Addr().String(), "Srv", []interface{}{&cl}, nil,
			jsonrpc.WithMethodNameFormatter(f), jsonrpc.WithClientHandler("Impl", &c16FmtImpl{id: id}), jsonrpc.WithClientHandlerAlias(f("Peer", "Who"), "Impl.Who"))
		if err != nil {
			return nil
		}
		tok := fmt.Sprintf("t%d", i)
		ctx, cancel := context.WithTimeout(context.Background(), 3*time.Second)
		got, err := cl.Ask(ctx, tok)
		cancel()
		closer()
		if err != nil || got != id+"/"+tok {
			return violf("reverse-call-failed", "server with formatter %s (reverse-client option listed first: %v): the forward call of %s whose handler calls back returned (%q, %v), expected %q", c.Formatter, c.RevFirst, id, got, err, id+"/"+tok)
		}
	}
	return nil
}

func c16NT(c c16Case) (bool, []string) {
	cl := []string{"mode_" + c.Mode, fmt.Sprintf("clients_%d", c.Clients)}
	nested := false
	for _, cc := range c.Calls {
		if cc.Reverse >= 2 {
			nested = true
		}
		if cc.Alias {
			cl = append(cl, "alias_and_tag")
		}
		if cc.Notify {
			cl = append(cl, "forward_notification")
		}
		if cc.Slow {
			cl = append(cl, "slow_reverse")
			if cc.Retry {
				cl = append(cl, "retry_tagged_reverse_call_at_loss")
			}
		}
		if cc.Burst > 0 {
			cl = append(cl, "burst_into_stalled_link")
		}
	}
	if c.Detach {
		cl = append(cl, "request_ctx_outlives_connection")
	}
	if c.Cut != nil {
		cl = append(cl, "link_cut", "cut_"+c.Cut.Dir+"_"+c.Cut.Pos)
	}
	if nested {
		cl = append(cl, "several_reverse_calls")
	}
	return c.Clients >= 2 || c.Cut != nil, cl
}

const c16Rule = "1-5 clients connected at once, each with a reverse handler returning its own identity; 1-8 concurrent forward calls, each making 0-3 reverse calls while pending, optionally one through a field tagged rpc_method that resolves via a client-side handler alias together with one into a second client-side handler registered under another namespace (the two WithClientHandler options come in either order; every third client registers just one handler), optionally one into a client-side handler that blocks, optionally all of them through retry-tagged fields of the reverse client struct; link of one client cut (FIN/RST) at a drawn frame and byte position of the reverse exchange; modes {ws, http, server without WithReverseClient}; servers behind a middleware whose request contexts outlive the connection; servers with a custom method-name formatter and the reverse-client option listed before or after it, the client-side handler reachable under the formatted name only. Non-trivial = >=2 clients connected, or a link cut; distinct by descriptor hash"

func TestC16(t *testing.T) {
	rec := NewRec("C16", c16Rule)
	defer rec.Finish(t)
	rec.EnableJournal()
	rec.RequireClass("request_ctx_outlives_connection", "server_formatter_custom_sep", "retry_tagged_reverse_call_at_loss", "forward_notification", "burst_into_stalled_link", "mode_ws", "mode_http", "mode_nooption", "clients_3", "alias_and_tag", "slow_reverse", "link_cut", "several_reverse_calls")
	run := func(ft failer, c c16Case) {
		nt, cl := c16NT(c)
		rec.Run(ft, c, nt, cl, func() *Violation {
			v, _ := runC16(c)
			if v != nil && v.Key != "reverse-wrong-client" && v.Key != "reverse-client-present" && v.Key != "foreign-result" {
				if v2, _ := runC16(c); v2 == nil {
					rec.Class("unconfirmed", 1)
					return nil
				}
			}
			return v
		})
	}
	t.Run("grid", func(t *testing.T) {
		for k := 1; k <= 5; k++ {
			var calls []c16Call
			for i := 0; i < 2*k; i++ {
				calls = append(calls, c16Call{Client: i % k, Reverse: 1 + i%3, Alias: i%2 == 0, Gate: i%3 != 0, Notify: i%4 == 1})
			}
			run(t, c16Case{Mode: "ws", Clients: k, Calls: calls})
		}
		run(t, c16Case{Mode: "http", Clients: 2, Calls: []c16Call{{Client: 0, Reverse: 1}, {Client: 1, Reverse: 2, Alias: true}}})
		run(t, c16Case{Mode: "nooption", Clients: 2, Calls: []c16Call{{Client: 0, Reverse: 1}, {Client: 1, Reverse: 1, Alias: true}}})
		// cuts on the reverse exchange of client 0 while client 1 stays healthy
		for _, dir := range faultDirs {
			for fr := 0; fr <= 2; fr++ {
				for _, pos := range faultPos {
					if !thorough() && (fr+len(pos))%2 == 0 {
						continue
					}
					run(t, c16Case{Mode: "ws", Clients: 2, Calls: []c16Call{{Client: 0, Reverse: 2, Gate: true}, {Client: 1, Reverse: 2, Gate: true}, {Client: 0, Reverse: 1}},
						Cut: &Fault{Conn: 0, Dir: dir, Frame: fr, Pos: pos, Kind: []string{"fin", "rst"}[fr%2]}})
				}
			}
		}
		for _, kind := range []string{"fin", "rst"} {
			// which of the queued reverse calls the dying connection loop still accepts is up to the scheduler: repeat
			for rep := 0; rep < scale(6, 25); rep++ {
				run(t, c16Case{Mode: "ws", Clients: 2, Calls: []c16Call{{Client: 0, Burst: 24 + rep}, {Client: 1, Reverse: 1}},
					Cut: &Fault{Conn: 0, Dir: "s2c", Frame: 9999, Pos: "before", Kind: kind}})
			}
			run(t, c16Case{Mode: "ws", Clients: 2, Calls: []c16Call{{Client: 0, Slow: true}, {Client: 1, Reverse: 1}, {Client: 0, Slow: true, Reverse: 1}},
				Cut: &Fault{Conn: 0, Dir: "s2c", Frame: 99, Pos: "before", Kind: kind}})
			run(t, c16Case{Mode: "ws", Clients: 2, Detach: true, Calls: []c16Call{{Client: 0, Slow: true}, {Client: 1, Reverse: 1}, {Client: 0, Slow: true, Reverse: 2}},
				Cut: &Fault{Conn: 0, Dir: "s2c", Frame: 99, Pos: "before", Kind: kind}})
			// the same through retry-tagged fields of the reverse client: nothing to retry against once the client is gone
			run(t, c16Case{Mode: "ws", Clients: 2, Calls: []c16Call{{Client: 0, Slow: true, Retry: true}, {Client: 1, Reverse: 2, Retry: true}, {Client: 0, Slow: true, Reverse: 1, Retry: true}},
				Cut: &Fault{Conn: 0, Dir: "s2c", Frame: 99, Pos: "before", Kind: kind}})
		}
	})
	t.Run("formatter", func(t *testing.T) {
		for _, fn := range []string{"default", "nons+lower", "custom_sep", "custom_upper"} {
			for _, rf := range []bool{false, true} {
				c := c16Fmt{Formatter: fn, RevFirst: rf, Clients: 2}
				rec.Run(t, c, true, []string{"server_formatter_" + fn, "mode_ws"}, func() *Violation { return runC16Formatter(c) })
			}
		}
	})
	rec.Rapid(t, "rapid", func(rt *rapid.T) {
		c := c16Case{Mode: rapid.SampledFrom([]string{"ws", "ws", "ws", "ws", "http", "nooption"}).Draw(rt, "mode"), Clients: rapid.IntRange(1, 5).Draw(rt, "clients")}
		n := rapid.IntRange(1, 8).Draw(rt, "ncalls")
		cut := c.Mode == "ws" && rapid.IntRange(0, 2).Draw(rt, "cut") == 0
		for i := 0; i < n; i++ {
			l := fmt.Sprintf("c%d_", i)
			cc := c16Call{Client: rapid.IntRange(0, c.Clients-1).Draw(rt, l+"client"), Reverse: rapid.IntRange(0, 3).Draw(rt, l+"rev"), Alias: rapid.Bool().Draw(rt, l+"alias"), Gate: rapid.Bool().Draw(rt, l+"gate"), Notify: rapid.IntRange(0, 3).Draw(rt, l+"notify") == 0, Retry: rapid.IntRange(0, 2).Draw(rt, l+"retry") == 0}
			if cut && c.Mode == "ws" {
				cc.Slow = rapid.IntRange(0, 3).Draw(rt, l+"slow") == 0
			}
			c.Calls = append(c.Calls, cc)
		}
		c.Detach = rapid.IntRange(0, 2).Draw(rt, "detach") == 0
		if cut {
			c.Cut = &Fault{Conn: rapid.IntRange(0, c.Clients-1).Draw(rt, "cutconn"), Dir: rapid.SampledFrom(faultDirs).Draw(rt, "cutdir"), Frame: rapid.IntRange(0, 6).Draw(rt, "cutframe"),
				Pos: rapid.SampledFrom(faultPos).Draw(rt, "cutpos"), Kind: rapid.SampledFrom([]string{"fin", "rst"}).Draw(rt, "cutkind")}
		}
		run(rt, c)
	})
}

func TestC16Replay(t *testing.T) {
	Replay(t, "C16", 5, func(raw json.RawMessage) *Violation {
		var probe map[string]json.RawMessage
		_ = json.Unmarshal(raw, &probe)
		if _, ok := probe["rev_first"]; ok {
			var fc c16Fmt
			_ = json.Unmarshal(raw, &fc)
			return runC16Formatter(fc)
		}
		var c c16Case
		if err := json.Unmarshal(raw, &c); err != nil {
			return nil
		}
		v, _ := runC16(c)
		return v
	})
}
