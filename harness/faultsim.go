package harness

// Fault-sequence engine shared by C03 (no hang / no foreign result), C04
// (at-most-once) and C05 (self-healing reconnect): runs a workload of token
// calls through the frame-aware proxy, injects one or two connection faults at
// chosen byte positions, optionally holds the client inside the reconnect
// window or refuses redials, heals the link, and records everything the three
// oracles need.

import (
	"encoding/json"
	"fmt"
	"strings"
	"time"
)

type fsCall struct {
	Kind string `json:"kind"` // call | retry | notify | sub | noctx
	Plan Plan   `json:"plan"`
	When string `json:"when"`                    // pre | noticed | window | healed
	Pre  bool   `json:"pre_cancelled,omitempty"` // issued with an already cancelled context
}

type fsCase struct {
	Calls         []fsCall    `json:"calls"`
	Fault         *Fault      `json:"fault,omitempty"`
	Fault2        *Fault      `json:"fault2,omitempty"` // on the first connection established after the fault
	Refused       int         `json:"refused,omitempty"`
	RefuseHow     string      `json:"refuse_how,omitempty"`      // how redials are refused: "" = TCP reset | http503 | http200 (an HTTP answer that is not the protocol switch)
	NoClientPings bool        `json:"no_client_pings,omitempty"` // blackhole cases: the client is built with WithPingInterval(0)
	OutageMs      int         `json:"outage_ms,omitempty"`       // with Refused > 0: redials keep being refused until the outage has lasted this long
	BackoffMinMs  int         `json:"backoff_min_ms,omitempty"`
	BackoffMaxMs  int         `json:"backoff_max_ms,omitempty"`
	NoReconnect   bool        `json:"no_reconnect,omitempty"`
	WithErrors    bool        `json:"with_errors,omitempty"`
	Rules         []*HookRule `json:"rules,omitempty"`
}

type fsCallOut struct {
	fsCall
	P *Pending
}

type fsOutcome struct {
	Case           fsCase
	Calls          []fsCallOut
	FaultFired     bool
	WindowReached  bool
	HealedOK       bool
	HealTook       time.Duration
	Lost           []*Pending
	Undecided      []*Pending
	CloserReturned bool
	HangAfterClose []*Pending
	DialBegins     []time.Time
	DialResults    []bool
	Accepts        []time.Time
	Wire           []WireMsg
	Framing        []string
	Rig            *Rig
	Client         *RigClient
	Infra          string // non-empty: harness-side trouble, case is inconclusive
	Notes          []string
	HealAt         time.Time
	LateProbeErr   error
}

func (c fsCase) needsTimeouts() bool {
	return (c.Fault != nil && c.Fault.Kind == "blackhole") || (c.Fault2 != nil && c.Fault2.Kind == "blackhole")
}

func (c fsCase) hasWhen(w string) bool {
	for _, x := range c.Calls {
		if x.When == w {
			return true
		}
	}
	return false
}

func (c fsCase) backoff() (time.Duration, time.Duration) {
	mn, mx := c.BackoffMinMs, c.BackoffMaxMs
	if mn <= 0 {
		mn = 5
	}
	if mx < mn {
		mx = mn * 4
	}
	return time.Duration(mn) * time.Millisecond, time.Duration(mx) * time.Millisecond
}

// runFaultSim executes the case. The caller must call out.Rig.Close() (done by finish()).
func runFaultSim(c fsCase) *fsOutcome {
	out := &fsOutcome{Case: c}
	mn, mx := c.backoff()
	opts := RigOpts{BackoffMin: mn, BackoffMax: mx, NoReconnect: c.NoReconnect, WithErrors: c.WithErrors}
	if c.needsTimeouts() {
		opts.ClientTimeout, opts.ClientPing, opts.ServerPing = 400*time.Millisecond, 100*time.Millisecond, 80*time.Millisecond
		// NoClientPings: the client relies on its read deadline alone (the server's pings keep a healthy link alive)
		opts.ClientPingOff = c.NoClientPings
	}
	rig, err := NewRig(opts)
	if err != nil {
		out.Infra = "rig: " + err.Error()
		return out
	}
	out.Rig = rig
	cl, err := rig.NewClient("c")
	if err != nil {
		out.Infra = "client: " + err.Error()
		return out
	}
	out.Client = cl
	hooks.Reset(c.Rules...)

	window := c.hasWhen("window") || c.Refused > 0
	if window {
		cl.Dial.Hold()
	}
	if c.Fault != nil {
		f := *c.Fault
		f.Conn = 0
		rig.Proxy.AddFault(&f)
	}
	if c.Fault2 != nil {
		f := *c.Fault2
		f.Conn = 1
		rig.Proxy.AddFault(&f)
	}

	issue := func(when string) {
		for _, fc := range c.Calls {
			if fc.When != when {
				continue
			}
			tok := rig.Tok(fc.Kind)
			var p *Pending
			if fc.Pre {
				p = rig.GoPre(cl, fc.Kind, tok, fc.Plan)
			} else {
				p = rig.Go(cl, fc.Kind, tok, fc.Plan)
			}
			out.Calls = append(out.Calls, fsCallOut{fc, p})
			// keep the order of requests on the wire equal to the order in the case where the link allows it
			deadline := time.Now().Add(60 * time.Millisecond)
			for time.Now().Before(deadline) {
				if p.Returned() || rig.W.Started(tok) > 0 {
					break
				}
				time.Sleep(200 * time.Microsecond)
			}
		}
	}

	issue("pre")
	faultAt := time.Now()
	if c.Fault != nil {
		if f := rig.Proxy.WaitFault(300 * time.Millisecond); f != nil {
			out.FaultFired = true
		} else {
			// the chosen frame does not exist in this workload: cut between frames instead
			rig.Proxy.ClearFaults()
			if c.Fault2 != nil {
				f := *c.Fault2
				f.Conn = 1
				rig.Proxy.AddFault(&f)
			}
			rig.Proxy.CutAll(c.Fault.Kind)
			out.Notes = append(out.Notes, "fault frame not reached; cut applied after the workload")
		}
		if c.Refused > 0 {
			pol := "reject"
			if c.RefuseHow != "" {
				pol = "reject-" + c.RefuseHow
			}
			rig.Proxy.SetPolicy(pol)
		}
		issue("noticed")
		if window && !c.NoReconnect {
			// wait until the client sits in the reconnect window (its redial is parked in our dial wrapper)
			deadline := time.Now().Add(4 * time.Second)
			for time.Now().Before(deadline) && cl.Dial.Held() == 0 {
				time.Sleep(time.Millisecond)
			}
			out.WindowReached = cl.Dial.Held() > 0
			issue("window")
			if out.WindowReached {
				time.Sleep(5 * time.Millisecond)
			}
		} else {
			issue("window")
		}
		if c.Refused > 0 {
			// let the client run into `Refused` failed redials, then make the server reachable again
			cl.Dial.Release()
			deadline := time.Now().Add(time.Duration(c.Refused)*(mx+3*time.Millisecond) + 3*time.Second)
			for time.Now().Before(deadline) {
				n := 0
				for _, ok := range cl.Dial.Results()[1:] {
					if !ok {
						n++
					}
				}
				if n >= c.Refused {
					break
				}
				time.Sleep(time.Millisecond)
			}
			if rest := time.Duration(c.OutageMs)*time.Millisecond - time.Since(faultAt); rest > 0 {
				time.Sleep(rest)
			}
		}
	}
	// heal
	out.HealAt = time.Now()
	rig.Proxy.SetPolicy("forward")
	cl.Dial.Release()
	// release every handler gate
	for _, co := range out.Calls {
		if co.Plan.Gate {
			rig.W.Release(co.P.Tok)
		}
	}
	if c.Fault != nil && !c.NoReconnect {
		// the client must come back by itself: probe until one round-trips
		budget := 50*mx + 3*time.Second
		deadline := time.Now().Add(budget)
		var last error
		for time.Now().Before(deadline) {
			if last = rig.Probe(cl, 700*time.Millisecond); last == nil {
				out.HealedOK = true
				out.HealTook = time.Since(out.HealAt)
				break
			}
			if strings.HasPrefix(last.Error(), "FOREIGN-RESULT") {
				break
			}
			time.Sleep(3 * time.Millisecond)
		}
		out.LateProbeErr = last
	} else if c.Fault == nil {
		out.HealedOK = rig.Probe(cl, 2*time.Second) == nil
	}
	issue("healed")
	for _, co := range out.Calls { // gates of calls issued late
		if co.Plan.Gate {
			rig.W.Release(co.P.Tok)
		}
	}
	var all []*Pending
	for _, co := range out.Calls {
		all = append(all, co.P)
	}
	var probeClient *RigClient
	if out.HealedOK {
		probeClient = cl
	}
	budget := 6 * time.Second
	if c.NoReconnect && c.Fault != nil {
		budget = 1500 * time.Millisecond // the client is gone for good: everything must fail promptly
	}
	out.Lost, out.Undecided = rig.AwaitAll(probeClient, all, budget)
	// drain subscriptions briefly so that their handlers can finish
	out.DialBegins = cl.Dial.Begins()
	out.DialResults = cl.Dial.Results()
	out.CloserReturned = cl.Close(5 * time.Second)
	out.HangAfterClose = AwaitReturn(all, 3*time.Second)
	out.Accepts = rig.Proxy.Accepts()
	out.Wire = rig.Proxy.Log()
	out.Framing = rig.Proxy.FramingViolations()
	return out
}

func (o *fsOutcome) finish() {
	hooks.Off()
	if o.Rig != nil {
		o.Rig.Close()
	}
}

// commonFaultOracle holds the verdicts every fault property shares: no foreign result,
// no lost call once the link is healthy, no call blocked after close.
func (o *fsOutcome) commonFaultOracle() *Violation {
	for _, co := range o.Calls {
		if v := co.P.CheckOwn(); v != nil {
			return v
		}
		if co.P.Returned() && co.P.Err != nil && strings.HasPrefix(co.P.Err.Error(), "CLIENT-PANIC") {
			return violf("client-panic", "call %s panicked in the client: %v", co.P.Tok, co.P.Err)
		}
	}
	if len(o.Lost) > 0 {
		p := o.Lost[0]
		when := ""
		for _, co := range o.Calls {
			if co.P == p {
				when = co.When
			}
		}
		key := "call-lost"
		if when == "window" {
			key = "window-call-lost"
		}
		return violf(key, "call %s (%s, issued %s) never returned: no handler is running for it (started %d, finished %d) and 3 later probes round-tripped on the same client; hook history: %v",
			p.Tok, p.Kind, when, o.Rig.W.Started(p.Tok), o.Rig.W.Finished(p.Tok), hooks.History(25))
	}
	if !o.CloserReturned {
		return violf("closer-hang", "the client's closer did not return within 5s")
	}
	if o.Case.NoReconnect && o.Case.Fault != nil && len(o.Undecided) > 0 {
		p := o.Undecided[0]
		return violf("call-blocked-on-dead-client", "call %s (%s) still blocked 1.5s after a no-reconnect client lost its connection", p.Tok, p.Kind)
	}
	if len(o.HangAfterClose) > 0 {
		p := o.HangAfterClose[0]
		return violf("call-blocked-after-close", "call %s (%s) still blocked 3s after the client was closed", p.Tok, p.Kind)
	}
	return nil
}

func (o *fsOutcome) describe() string {
	var b strings.Builder
	for _, co := range o.Calls {
		st := "outstanding"
		if co.P.Returned() {
			st = fmt.Sprintf("err=%v", co.P.Err)
		}
		fmt.Fprintf(&b, "[%s %s %s started=%d %s] ", co.When, co.Kind, co.P.Tok, o.Rig.W.Started(co.P.Tok), st)
	}
	return b.String()
}

func parseFsCase(raw json.RawMessage) (fsCase, bool) {
	var c fsCase
	if err := json.Unmarshal(raw, &c); err != nil {
		return c, false
	}
	return c, true
}
