package harness

// C04 - at-most-once execution; exactly once when the caller gets an answer.
//
// Uses the fault engine of C03 with per-token execution counters and the
// proxy's wire log. Oracle: plain / notify calls execute at most once under
// every fault sequence, exactly once whenever the caller got a value or a
// handler error; a notification carries no id, executes exactly once on a
// healthy link and is never answered; no untagged request is ever seen twice
// on the wire. retry-tagged calls are the contrast class (may execute twice).

import (
	"bytes"
	"context"
	"encoding/json"
	"errors"
	"fmt"
	"io"
	"net/http"
	"testing"
	"time"

	jsonrpc "github.com/filecoin-project/go-jsonrpc"
	"pgregory.net/rapid"
)

type wireReq struct {
	ID     json.RawMessage   `json:"id"`
	Method string            `json:"method"`
	Params []json.RawMessage `json:"params"`
	Result json.RawMessage   `json:"result"`
	Error  json.RawMessage   `json:"error"`
}

func runC04(c fsCase) (*Violation, *fsOutcome) {
	o := runFaultSim(c)
	defer o.finish()
	if o.Infra != "" {
		return nil, o
	}
	w := o.Rig.W
	healthy := c.Fault == nil
	// give asynchronous notification handlers a moment on a healthy link
	if healthy {
		deadline := time.Now().Add(2 * time.Second)
		for time.Now().Before(deadline) {
			all := true
			for _, co := range o.Calls {
				if co.Kind == "notify" && w.Started(co.P.Tok) < 1 {
					all = false
				}
			}
			if all {
				break
			}
			time.Sleep(time.Millisecond)
		}
	}
	for _, co := range o.Calls {
		n := w.Started(co.P.Tok)
		tagged := co.Kind == "retry"
		if !tagged && n > 1 {
			return violf("executed-more-than-once", "%s %s (issued %s) executed %d times; %s", co.Kind, co.P.Tok, co.When, n, o.describe()), o
		}
		if !co.P.Returned() {
			continue
		}
		answered := false
		if co.Kind != "notify" && co.Kind != "sub" {
			var je *jsonrpc.JSONRPCError
			if co.P.Err == nil {
				answered = true
			} else if co.Plan.Fail != "" && co.P.Err.Error() == co.Plan.Fail {
				answered = true
			} else if errors.As(co.P.Err, &je) && je.Code == 1 {
				// code 1 is what the server gives an error *returned by the handler* (e.g. its ctx.Err()); connection
				// errors carry the temporary-error code and client-side errors are not JSON-RPC errors at all
				answered = true
			}
		}
		if answered && n < 1 {
			return violf("answer-without-execution", "%s %s got an answer (%v) but its handler never ran", co.Kind, co.P.Tok, co.P.Err), o
		}
		if answered && !tagged && n != 1 {
			return violf("executed-more-than-once", "%s %s got an answer and executed %d times", co.Kind, co.P.Tok, n), o
		}
		if healthy && co.Kind == "notify" {
			if co.P.Err != nil {
				return violf("notify-error-healthy", "notification %s failed on a healthy link: %v", co.P.Tok, co.P.Err), o
			}
			if n != 1 {
				return violf("notify-execution-count", "notification %s executed %d times on a healthy link", co.P.Tok, n), o
			}
		}
	}
	// wire level
	reqFrames := map[string]int{}
	type cnt struct{ withID, responses int }
	perConn := map[int]*cnt{}
	for _, m := range o.Wire {
		if m.Opcode != 1 && m.Opcode != 2 {
			continue
		}
		var r wireReq
		if json.Unmarshal(m.Payload, &r) != nil {
			continue
		}
		pc := perConn[m.Conn]
		if pc == nil {
			pc = &cnt{}
			perConn[m.Conn] = pc
		}
		if m.Dir == "c2s" && r.Method != "" {
			hasID := len(r.ID) > 0 && string(r.ID) != "null"
			if hasID {
				pc.withID++
			}
			if len(r.Params) > 0 && (r.Method == "Tok.Call" || r.Method == "Tok.Notify" || r.Method == "Tok.Sub") {
				var tok string
				if json.Unmarshal(r.Params[0], &tok) == nil {
					reqFrames[tok]++
					if r.Method == "Tok.Notify" && hasID {
						return violf("notification-with-id", "notification %s was sent with id %s", tok, r.ID), o
					}
				}
			}
		}
		if m.Dir == "s2c" && r.Method == "" {
			pc.responses++
		}
	}
	for _, co := range o.Calls {
		if co.Kind != "retry" && reqFrames[co.P.Tok] > 1 {
			return violf("request-resent", "%s %s appears in %d request frames on the wire", co.Kind, co.P.Tok, reqFrames[co.P.Tok]), o
		}
	}
	if healthy {
		for conn, pc := range perConn {
			if pc.responses != pc.withID {
				return violf("response-count", "healthy connection %d: %d id-bearing requests, %d response frames (a notification must never be answered)", conn, pc.withID, pc.responses), o
			}
		}
	}
	// the shared verdicts still apply (a foreign result is also an at-most-once problem)
	for _, co := range o.Calls {
		if v := co.P.CheckOwn(); v != nil {
			return v, o
		}
	}
	return nil, o
}

// healthy non-websocket transports: started == 1 per call, notifications execute once
func runC04Plain(transport string, kinds []string) *Violation {
	rig, err := NewRig(RigOpts{NoProxy: true})
	if err != nil {
		return nil
	}
	defer rig.Close()
	var cl *RigClient
	if transport == "http" {
		cl, err = rig.NewHTTPClient("h")
	} else {
		cl = &RigClient{ID: "custom"}
		var hc struct {
			Call   func(ctx context.Context, tok string, plan Plan) (Result, error)
			Notify func(ctx context.Context, tok string, plan Plan) error           `notify:"true"`
			NoCtx  func(tok string, plan Plan) (Result, error)                      `rpc_method:"Tok.Call"`
			Retry  func(ctx context.Context, tok string, plan Plan) (Result, error) `retry:"true" rpc_method:"Tok.Call"`
		}
		cl.closer, err = jsonrpc.NewCustomClient("Tok", []interface{}{&hc}, func(ctx context.Context, body []byte) (io.ReadCloser, error) {
			var buf bytes.Buffer
			rig.RPC.HandleRequest(ctx, bytes.NewReader(body), &buf)
			return io.NopCloser(&buf), nil
		})
		cl.C.Call, cl.C.Notify, cl.C.NoCtx, cl.C.Retry = hc.Call, hc.Notify, hc.NoCtx, hc.Retry
	}
	if err != nil {
		return nil
	}
	var ps []*Pending
	for i, k := range kinds {
		plan := Plan{}
		if i%3 == 2 {
			plan.Fail = "handler failure"
		}
		ps = append(ps, rig.Go(cl, k, rig.Tok(k), plan))
	}
	if out := AwaitReturn(ps, 5*time.Second); len(out) > 0 {
		return violf("call-hang", "%s: call %s did not return on a healthy %s transport", transport, out[0].Tok, transport)
	}
	time.Sleep(2 * time.Millisecond)
	for _, p := range ps {
		if n := rig.W.Started(p.Tok); n != 1 {
			// http notifications are synchronous requests too, so exactly once holds for every kind
			return violf("plain-execution-count", "%s over %s executed %d times", p.Kind, transport, n)
		}
		if v := p.CheckOwn(); v != nil {
			return v
		}
	}
	return nil
}

// http transport under connection faults: the library (and the http stack it configures) must not re-send
type c04HTTPFault struct {
	HTTPFault string `json:"http_fault"` // fin | rst
	Warm      int    `json:"warm"`       // successful calls before (so that a keep-alive connection is reused)
	Kind      string `json:"kind"`       // call | notify | noctx
	When      string `json:"when"`       // running (cut while the handler runs) | early (cut right after issuing) | body (cut after the response headers and 5 body bytes)
	Size      int    `json:"size,omitempty"`
}

func runC04HTTPFault(c c04HTTPFault) *Violation {
	rig, err := NewRig(RigOpts{})
	if err != nil {
		return nil
	}
	defer rig.Close()
	tr := &http.Transport{MaxIdleConnsPerHost: 4}
	defer tr.CloseIdleConnections()
	cl, err := rig.NewHTTPClientVia("h", rig.Proxy.Addr(), &http.Client{Transport: tr})
	if err != nil {
		return nil
	}
	for i := 0; i < c.Warm; i++ {
		if err := rig.Probe(cl, 3*time.Second); err != nil {
			return nil
		}
	}
	tok := rig.Tok(c.Kind)
	if c.When == "body" {
		rig.Proxy.AddFault(&Fault{Conn: -1, Dir: "s2c", Pos: "httpbody", Kind: c.HTTPFault})
	}
	p := rig.Go(cl, c.Kind, tok, Plan{Gate: true, Size: c.Size + 2000})
	if c.When == "running" || c.When == "body" {
		rig.W.WaitStarted(tok, 2*time.Second)
	}
	if c.When != "body" {
		rig.Proxy.CutAll(c.HTTPFault)
	}
	time.Sleep(2 * time.Millisecond)
	rig.W.Release(tok)
	select {
	case <-p.Done:
	case <-time.After(5 * time.Second):
		return violf("http-call-hangs", "http %s did not return within 5s after its connection was cut", c.Kind)
	}
	// a replayed request would start a second execution shortly after the cut
	deadline := time.Now().Add(150 * time.Millisecond)
	for time.Now().Before(deadline) && rig.W.Started(tok) < 2 {
		time.Sleep(time.Millisecond)
	}
	n := rig.W.Started(tok)
	if n > 1 {
		return violf("executed-more-than-once", "http %s %s executed %d times after its connection was cut (%s, %d warm-up calls); caller got err=%v", c.Kind, tok, n, c.When, c.Warm, p.Err)
	}
	if p.Err == nil && c.Kind != "notify" {
		if v := p.CheckOwn(); v != nil {
			return v
		}
		if n != 1 {
			return violf("answer-without-execution", "http %s got an answer but executed %d times", c.Kind, n)
		}
	}
	return nil
}

func c04NT(c fsCase) (bool, []string) {
	_, cl := fsClasses(c)
	inflight := false
	notify := false
	for _, fc := range c.Calls {
		if fc.When == "pre" && fc.Plan.Gate {
			inflight = true
		}
		if fc.Kind == "notify" {
			notify = true
		}
	}
	if inflight && c.Fault != nil {
		cl = append(cl, "inflight_at_fault")
	}
	if notify {
		cl = append(cl, "has_notification")
	}
	return (c.Fault != nil && inflight) || notify, cl
}

const c04Rule = "fault engine of C03 (workload x fault kind x direction x frame x position x calls in the reconnect window x double faults) with call kinds {plain, no-context, notify-tagged (to a plain method or to the channel-returning one), retry-tagged as contrast}, plus healthy runs over ws, http and custom transports; executions counted per unique call token and request frames counted per token on the wire. Non-trivial = faulted case with a call in flight at the fault, or a case containing a notification; distinct by descriptor hash"

func TestC04(t *testing.T) {
	rec := NewRec("C04", c04Rule)
	defer rec.Finish(t)
	rec.EnableJournal()
	rec.RequireClass("http_fault", "inflight_at_fault", "has_notification", "no_fault", "kind_fin", "kind_rst", "has_retry", "plain_http", "plain_custom")

	run := func(ft failer, c fsCase) {
		nt, cl := c04NT(c)
		rec.Run(ft, c, nt, cl, func() *Violation {
			v, o := runC04(c)
			if v != nil && (v.Key == "notify-execution-count" || v.Key == "response-count") {
				if v2, _ := runC04(c); v2 == nil {
					rec.Class("unconfirmed", 1)
					return nil
				}
			}
			if o.WindowReached {
				rec.Class("window_reached", 1)
			}
			return v
		})
	}
	t.Run("grid", func(t *testing.T) {
		healthy := []fsCall{
			{Kind: "call", When: "pre"}, {Kind: "notify", When: "pre"}, {Kind: "noctx", When: "pre"}, {Kind: "notify", Plan: Plan{Fail: "handler failure"}, When: "pre"},
			{Kind: "call", Plan: Plan{Fail: "handler failure"}, When: "pre"}, {Kind: "sub", Plan: Plan{N: 2}, When: "pre"}, {Kind: "notify", When: "pre"}, {Kind: "retry", When: "pre"},
		}
		run(t, fsCase{Calls: healthy})
		run(t, fsCase{Calls: healthy[:3]})
		// notifications addressed to the channel-returning method: executed once, answered with nothing at all
		run(t, fsCase{Calls: []fsCall{{Kind: "call", When: "pre"}, {Kind: "notify", Plan: Plan{ViaSub: true, N: 2}, When: "pre"}, {Kind: "notify", Plan: Plan{ViaSub: true}, When: "pre"}, {Kind: "call", When: "pre"}}})
		// calls issued with an already cancelled context: whatever answer they get must come from an execution
		pre := []fsCall{}
		for i := 0; i < 12; i++ {
			pre = append(pre, fsCall{Kind: []string{"call", "retry"}[i%2], Plan: Plan{Gate: true, WatchCtx: true}, When: "pre", Pre: true})
		}
		for i := 0; i < scale(3, 10); i++ {
			run(t, fsCase{Calls: pre})
		}
		faulty := []fsCall{
			{Kind: "call", Plan: Plan{Gate: true}, When: "pre"}, {Kind: "notify", Plan: Plan{Gate: true}, When: "pre"}, {Kind: "call", Plan: Plan{Size: 6000}, When: "pre"},
			{Kind: "retry", Plan: Plan{Gate: true}, When: "pre"}, {Kind: "call", When: "window"}, {Kind: "notify", When: "window"}, {Kind: "retry", When: "window"}, {Kind: "call", When: "healed"},
			// an ordinary call through the function tagged retry:"false", in flight at the fault and in the window
			{Kind: "call", Plan: Plan{Gate: true, TagFalse: true}, When: "pre"}, {Kind: "call", Plan: Plan{TagFalse: true}, When: "window"},
		}
		k := 0
		off := envInt("VERIF_SEED", 1)
		stride := scale(4, 1)
		sh, nsh := shard()
		for _, dir := range faultDirs {
			for fr := 0; fr <= 4; fr++ {
				for _, pos := range faultPos {
					for _, kind := range []string{"fin", "rst"} {
						k++
						if (k+off)%stride != 0 || k%nsh != sh {
							continue
						}
						run(t, fsCase{Calls: faulty, Fault: &Fault{Dir: dir, Frame: fr, Pos: pos, Kind: kind}})
					}
				}
			}
		}
		for _, kind := range []string{"call", "notify", "noctx"} {
			for _, when := range []string{"running", "early", "body"} {
				for warm := 0; warm <= 2; warm++ {
					hc := c04HTTPFault{HTTPFault: []string{"fin", "rst"}[warm%2], Warm: warm, Kind: kind, When: when, Size: warm * 3000}
					rec.Run(t, hc, true, []string{"http_fault", "inflight_at_fault"}, func() *Violation { return runC04HTTPFault(hc) })
				}
			}
		}
		for i := 0; i < scale(3, 10); i++ {
			for _, tr := range []string{"http", "custom"} {
				tr := tr
				kinds := []string{"call", "notify", "call", "noctx", "notify", "call"}
				rec.Run(t, map[string]interface{}{"plain_transport": tr, "kinds": kinds, "round": i}, true, []string{"plain_" + tr, "has_notification"}, func() *Violation { return runC04Plain(tr, kinds) })
			}
		}
	})
	rec.Rapid(t, "rapid", func(rt *rapid.T) {
		c := fsCase{Calls: genFsCalls(rt, []string{"call", "call", "notify", "notify", "retry", "noctx", "sub"}, []string{"pre", "pre", "pre", "noticed", "window", "healed"}, 2, 8)}
		for i := range c.Calls {
			if c.Calls[i].Kind == "notify" && rapid.IntRange(0, 3).Draw(rt, fmt.Sprintf("viasub%d", i)) == 0 {
				c.Calls[i].Plan.ViaSub = true
			}
		}
		if rapid.IntRange(0, 4).Draw(rt, "healthy") != 0 {
			npre := 0
			for _, fc := range c.Calls {
				if fc.When == "pre" {
					npre++
				}
			}
			c.Fault = genFault(rt, "f1", npre+1)
			if c.Fault.Kind == "blackhole" && rapid.Bool().Draw(rt, "noblackhole") {
				c.Fault.Kind = "fin"
			}
			if rapid.IntRange(0, 5).Draw(rt, "double") == 0 {
				c.Fault2 = genFault(rt, "f2", 3)
				if c.Fault2.Kind == "blackhole" {
					c.Fault2.Kind = "rst"
				}
			}
		}
		run(rt, c)
	})
}

func TestC04Replay(t *testing.T) {
	Replay(t, "C04", 10, func(raw json.RawMessage) *Violation {
		var probe map[string]json.RawMessage
		_ = json.Unmarshal(raw, &probe)
		if _, ok := probe["http_fault"]; ok {
			var hc c04HTTPFault
			_ = json.Unmarshal(raw, &hc)
			return runC04HTTPFault(hc)
		}
		if tr, ok := probe["plain_transport"]; ok {
			var s string
			_ = json.Unmarshal(tr, &s)
			return runC04Plain(s, []string{"call", "notify", "call", "noctx", "notify", "call"})
		}
		c, ok := parseFsCase(raw)
		if !ok {
			return nil
		}
		v, _ := runC04(c)
		return v
	})
}

var _ = fmt.Sprintf
