package harness

// C01, special result types: methods whose single result has a static type that is not `error` but happens to have an
// Error method (an exit code, a status record). They are value-returning methods like any other: the caller must get the
// JSON round-trip of what the handler returned, over every transport.

import (
	"bytes"
	"context"
	"fmt"
	"io"
	"net/http/httptest"

	jsonrpc "github.com/filecoin-project/go-jsonrpc"
)

type ExitCode int

func (e ExitCode) Error() string { return fmt.Sprintf("exit code %d", int(e)) }

type StatusRec struct {
	Code int    `json:"code"`
	Msg  string `json:"msg"`
}

func (s *StatusRec) Error() string { return s.Msg }

type c01SpecAPI struct{}

func (c01SpecAPI) Code(ctx context.Context, x int) ExitCode { return ExitCode(x) }
func (c01SpecAPI) Status(x int, m string) *StatusRec {
	if x == 0 {
		return nil
	}
	return &StatusRec{Code: x, Msg: m}
}
func (c01SpecAPI) Pair(ctx context.Context, x int) (ExitCode, error) {
	if x < 0 {
		return 0, fmt.Errorf("negative %d", x)
	}
	return ExitCode(x), nil
}

type c01SpecClient struct {
	Code   func(ctx context.Context, x int) ExitCode
	Status func(x int, m string) *StatusRec
	Pair   func(ctx context.Context, x int) (ExitCode, error)
}

type c01SpecCase struct {
	Spec string `json:"special_result"` // code | status | pair
	X    int    `json:"x"`
	M    string `json:"m,omitempty"`
}

type c01SpecEnv struct {
	srv     *httptest.Server
	clients map[string]*c01SpecClient
	closers []func()
	broken  *Violation
}

func newC01SpecEnv() *c01SpecEnv {
	e := &c01SpecEnv{clients: map[string]*c01SpecClient{}}
	func() {
		defer func() {
			if x := recover(); x != nil {
				e.broken = violf("client-panic", "setting up a server and clients for methods whose single result type has an Error method panicked: %v", x)
			}
		}()
		rpc := jsonrpc.NewServer()
		rpc.Register("Spec", c01SpecAPI{})
		e.srv = httptest.NewServer(rpc)
		for _, tr := range c01Transports {
			cl := &c01SpecClient{}
			var closer jsonrpc.ClientCloser
			var err error
			switch tr {
			case "ws":
				closer, err = jsonrpc.NewMergeClient(context.Background(), "ws://"+e.srv.Listener.Addr().String(), "Spec", []interface{}{cl}, nil)
			case "http":
				closer, err = jsonrpc.NewMergeClient(context.Background(), "http://"+e.srv.Listener.Addr().String(), "Spec", []interface{}{cl}, nil)
			default:
				closer, err = jsonrpc.NewCustomClient("Spec", []interface{}{cl}, func(ctx context.Context, body []byte) (io.ReadCloser, error) {
					var buf bytes.Buffer
					rpc.HandleRequest(ctx, bytes.NewReader(body), &buf)
					return io.NopCloser(&buf), nil
				})
			}
			if err != nil {
				e.broken = violf("client-setup-failed", "client for methods whose single result type has an Error method could not be created over %s: %v", tr, err)
				return
			}
			e.clients[tr] = cl
			e.closers = append(e.closers, closer)
		}
	}()
	return e
}

func (e *c01SpecEnv) Close() {
	bounded(5e9, func() {
		for _, c := range e.closers {
			c()
		}
		if e.srv != nil {
			closeTestServer(e.srv)
		}
	})
}

func (e *c01SpecEnv) run(c c01SpecCase) (v *Violation) {
	if e.broken != nil {
		return e.broken
	}
	for _, tr := range c01Transports {
		cl := e.clients[tr]
		func() {
			defer func() {
				if x := recover(); x != nil {
					v = violf("client-panic", "special result %s over %s: client function panicked: %v", c.Spec, tr, x)
				}
			}()
			switch c.Spec {
			case "code":
				if got := cl.Code(context.Background(), c.X); got != ExitCode(c.X) {
					v = violf("result-mismatch", "Code(%d) over %s returned %d (a method with one result whose type has an Error method returns a value like any other)", c.X, tr, int(got))
				}
			case "status":
				got := cl.Status(c.X, c.M)
				if c.X == 0 {
					if got != nil {
						v = violf("result-mismatch", "Status(0) over %s returned %+v, the handler returned nil", tr, got)
					}
				} else if got == nil || got.Code != c.X || got.Msg != c.M {
					v = violf("result-mismatch", "Status(%d,%q) over %s returned %+v", c.X, c.M, tr, got)
				}
			default:
				got, err := cl.Pair(context.Background(), c.X)
				if c.X < 0 {
					if err == nil || got != 0 {
						v = violf("error-lost", "Pair(%d) over %s: handler failed, caller got (%d, %v)", c.X, tr, int(got), err)
					}
				} else if err != nil || got != ExitCode(c.X) {
					v = violf("result-mismatch", "Pair(%d) over %s returned (%d, %v)", c.X, tr, int(got), err)
				}
			}
		}()
		if v != nil {
			return v
		}
	}
	return nil
}
