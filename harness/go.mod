module verifharness

go 1.23.0

require (
	github.com/filecoin-project/go-jsonrpc v0.0.0
	github.com/google/uuid v1.1.1
	github.com/gorilla/mux v1.7.4
	github.com/gorilla/websocket v1.4.2
	golang.org/x/xerrors v0.0.0-20191204190536-9bdfabe68543
	pgregory.net/rapid v1.3.0
)

require (
	github.com/golang/groupcache v0.0.0-20190702054246-869f871628b6 // indirect
	github.com/ipfs/go-log/v2 v2.0.8 // indirect
	go.opencensus.io v0.22.3 // indirect
	go.uber.org/atomic v1.6.0 // indirect
	go.uber.org/multierr v1.5.0 // indirect
	go.uber.org/zap v1.14.1 // indirect
)

replace github.com/filecoin-project/go-jsonrpc => /repo
