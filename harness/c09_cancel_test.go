package harness

// C09, cancelled calls: an id-bearing request whose context ends while the method runs (xrpc.cancel over WebSocket, the
// context handed to HandleRequest otherwise) and whose method then returns the context's error is still a request with an
// id: it gets exactly one response object echoing that id and carrying an error.

import (
	"bytes"
	"context"
	"encoding/json"
	"fmt"
	"net/http/httptest"
	"strings"
	"time"

	jsonrpc "github.com/filecoin-project/go-jsonrpc"
	"github.com/gorilla/websocket"
)

type c09WaitAPI struct{ started chan string }

// WaitCtx blocks until its context ends and returns the context's error (optionally wrapped).
func (a *c09WaitAPI) WaitCtx(ctx context.Context, tag string, wrap bool) (int, error) {
	a.started <- tag
	<-ctx.Done()
	if wrap {
		return 0, fmt.Errorf("gave up on %s: %w", tag, ctx.Err())
	}
	return 0, ctx.Err()
}

type c09CancelCase struct {
	Via   string `json:"cancelled_via"` // inproc | ws
	ID    string `json:"id"`            // JSON literal (number or string)
	Wrap  bool   `json:"wrap"`
	Batch bool   `json:"batch,omitempty"` // inproc: the request is the only element of a batch
}

func runC09Cancel(c c09CancelCase) *Violation {
	api := &c09WaitAPI{started: make(chan string, 4)}
	rpc := jsonrpc.NewServer()
	rpc.Register("W", api)
	body := fmt.Sprintf(`{"jsonrpc":"2.0","id":%s,"method":"W.WaitCtx","params":["t",%v]}`, c.ID, c.Wrap)
	waitStarted := func() bool {
		select {
		case <-api.started:
			return true
		case <-time.After(3 * time.Second):
			return false
		}
	}
	var reply []byte
	if c.Via == "inproc" {
		if c.Batch {
			body = "[" + body + "]"
		}
		ctx, cancel := context.WithCancel(context.Background())
		defer cancel()
		var buf bytes.Buffer
		done := make(chan struct{})
		go func() {
			defer close(done)
			rpc.HandleRequest(ctx, strings.NewReader(body), &buf)
		}()
		if !waitStarted() {
			return nil
		}
		cancel()
		select {
		case <-done:
		case <-time.After(5 * time.Second):
			return violf("cancelled-request-hangs", "HandleRequest did not return within 5s after its context was cancelled (%s)", body)
		}
		reply = buf.Bytes()
	} else {
		srv := httptest.NewServer(rpc)
		defer closeTestServer(srv)
		conn, _, err := websocket.DefaultDialer.Dial("ws://"+srv.Listener.Addr().String(), nil)
		if err != nil {
			return nil
		}
		defer conn.Close()
		if conn.WriteMessage(websocket.TextMessage, []byte(body)) != nil || !waitStarted() {
			return nil
		}
		if conn.WriteMessage(websocket.TextMessage, []byte(`{"jsonrpc":"2.0","method":"xrpc.cancel","params":[`+c.ID+`]}`)) != nil {
			return nil
		}
		conn.SetReadDeadline(time.Now().Add(5 * time.Second))
		_, msg, err := conn.ReadMessage()
		if err != nil {
			return violf("ws-response-count", "request %s was cancelled with xrpc.cancel and its method returned the context's error: no response frame within 5s (%v)", body, err)
		}
		reply = msg
	}
	sh, v := parseReply(reply)
	if v != nil {
		return v
	}
	if sh.empty || len(sh.objs) != 1 || sh.array != (c.Batch && c.Via == "inproc") {
		return violf("reply-shape", "cancelled request %s: expected one response object, got %q", body, trunc(string(reply), 200))
	}
	o := sh.objs[0]
	var want interface{}
	_ = json.Unmarshal([]byte(c.ID), &want)
	switch w := want.(type) {
	case string:
		if o.idStr == nil || *o.idStr != w {
			return violf("id-mismatch", "cancelled request %s: response does not echo the id: %s", body, trunc(string(reply), 200))
		}
	case float64:
		if o.idNum == nil || *o.idNum != w {
			return violf("id-mismatch", "cancelled request %s: response does not echo the id: %s", body, trunc(string(reply), 200))
		}
	}
	if !o.hasErr || o.hasRes {
		return violf("result-xor-error", "cancelled request %s whose method returned an error: response %s", body, trunc(string(reply), 200))
	}
	return nil
}
