package harness

// C18 - closing a client always completes and leaves nothing blocked.
//
// Generator: a mixed workload (streaming, gated calls awaiting responses, a
// multi-frame response being read, a burst of queued calls; variant B adds a
// connection loss with refused redials so that the close lands in the reconnect
// window or during a redial). Phase 1 counts the occurrences of every yield
// point; phase 2 fires the closer at occurrence k of point p (all (p,k) in
// thorough, a sample in quick) while holding the library goroutine for 1 ms.
// Oracle: the closer returns; every in-flight call returns; later calls fail
// promptly; every client channel is closed; no dial begins after the closer
// returned; http/custom closers return at once without disturbing calls.

import (
	"bytes"
	"context"
	"encoding/json"
	"fmt"
	"io"
	"sort"
	"strings"
	"sync"
	"sync/atomic"
	"testing"
	"time"

	jsonrpc "github.com/filecoin-project/go-jsonrpc"
	"pgregory.net/rapid"
)

type c18Case struct {
	Workload      string      `json:"workload"`                  // A | B | C (as B, but the connection is cut inside a frame: read-error path) | http | custom
	CancelAtClose bool        `json:"cancel_at_close,omitempty"` // contexts of the calls in flight are cancelled right after the closer was invoked
	TrigPoint     string      `json:"trig_point"`                // a yield point, "dial" (k-th dial begins), or "end"
	TrigOcc       int         `json:"trig_occ"`
	HoldLong      bool        `json:"hold_long,omitempty"` // the goroutine at the trigger point is parked until the closer has returned (at most 30 ms) instead of 1 ms
	Rules         []*HookRule `json:"rules,omitempty"`
}

type c18Run struct {
	rig           *Rig
	cl            *RigClient
	calls         []*Pending
	subs          []*Pending
	closed        chan struct{} // closed when the closer returned
	closeOK       int32
	fired         int32
	cancelAtClose bool
	mu            sync.Mutex
}

func (r *c18Run) fireClose() {
	if !atomic.CompareAndSwapInt32(&r.fired, 0, 1) {
		return
	}
	if r.cancelAtClose {
		go func() {
			time.Sleep(2 * time.Millisecond)
			r.mu.Lock()
			ps := append([]*Pending{}, r.calls...)
			r.mu.Unlock()
			for _, p := range ps {
				p.Cancel()
			}
		}()
	}
	go func() {
		if r.cl.Close(6 * time.Second) {
			atomic.StoreInt32(&r.closeOK, 1)
		}
		close(r.closed)
	}()
}

func (r *c18Run) isClosing() bool { return atomic.LoadInt32(&r.fired) == 1 }

// workload drives the scripted activity; it stops issuing new work once the close fired.
func (r *c18Run) workload(kind string) {
	rig, cl := r.rig, r.cl
	add := func(p *Pending) *Pending {
		r.mu.Lock()
		defer r.mu.Unlock()
		if p.Kind == "sub" {
			r.subs = append(r.subs, p)
		} else {
			r.calls = append(r.calls, p)
		}
		return p
	}
	step := func(f func()) bool {
		if r.isClosing() {
			return false
		}
		f()
		return true
	}
	var s1, g1, g2, big *Pending
	step(func() {
		// a call whose response the client cannot use (declared as a subscription, answered with a string): it stays in
		// flight until the connection or the client goes away
		add(rig.Go(cl, "mismatch", rig.Tok("mm"), Plan{}))
		// and one whose request cannot be written at all (raw params that are not JSON): the same, from the other end
		add(rig.Go(cl, "rawbad", rig.Tok("rb"), Plan{}))
	})
	step(func() {
		s1 = add(rig.Go(cl, "sub", rig.Tok("s"), Plan{N: 8, Early: 1, Pace: true, Linger: true}))
		select {
		case <-s1.Done:
		case <-time.After(time.Second):
		}
		rig.W.Tick(s1.Tok, 2)
	})
	step(func() {
		g1 = add(rig.Go(cl, "call", rig.Tok("g"), Plan{Gate: true}))
		g2 = add(rig.Go(cl, "call", rig.Tok("g"), Plan{Gate: true, WatchCtx: true}))
		rig.W.WaitStarted(g1.Tok, 300*time.Millisecond)
		rig.W.WaitStarted(g2.Tok, 300*time.Millisecond)
	})
	// D: as B, but the client goes through two outages (loss, refused redials, heal) before the rest of the workload, so
	// that whatever the first loss left behind meets a second loss and then the close
	outages := map[string]int{"B": 1, "C": 1, "D": 2}[kind]
	for o := 0; o < outages; o++ {
		before := len(cl.Dial.Begins())
		step(func() {
			rig.Proxy.SetPolicy("reject")
			if kind == "C" {
				// cut the connection in the middle of a large server->client frame: the client's read-error path
				rig.Proxy.AddFault(&Fault{Conn: 0, Dir: "s2c", Frame: rig.Proxy.FrameCounts()[0]["s2c"], Pos: "mid", Kind: "rst"})
				bigc := add(rig.Go(cl, "call", rig.Tok("bigc"), Plan{Size: 30000}))
				select {
				case <-bigc.Done:
				case <-time.After(500 * time.Millisecond):
				}
				if rig.Proxy.WaitFault(100*time.Millisecond) == nil {
					rig.Proxy.ClearFaults()
					rig.Proxy.CutAll("rst")
				}
			} else {
				rig.Proxy.CutAll("rst")
			}
			// calls issued while the client is between connections
			for i := 0; i < 3; i++ {
				add(rig.Go(cl, "call", rig.Tok("w"), Plan{}))
				add(rig.Go(cl, "retry", rig.Tok("wr"), Plan{}))
				time.Sleep(3 * time.Millisecond)
			}
			// a few refused redials
			deadline := time.Now().Add(300 * time.Millisecond)
			for len(cl.Dial.Begins()) < before+4 && time.Now().Before(deadline) && !r.isClosing() {
				time.Sleep(time.Millisecond)
			}
		})
		step(func() {
			rig.Proxy.SetPolicy("forward")
			deadline := time.Now().Add(500 * time.Millisecond)
			for time.Now().Before(deadline) && !r.isClosing() {
				if rig.Probe(cl, 200*time.Millisecond) == nil {
					break
				}
			}
			if o+1 < outages {
				// work in flight at the second loss as well
				add(rig.Go(cl, "call", rig.Tok("g"), Plan{Gate: true}))
				add(rig.Go(cl, "mismatch", rig.Tok("mm"), Plan{}))
				time.Sleep(5 * time.Millisecond)
			}
		})
	}
	step(func() {
		big = add(rig.Go(cl, "call", rig.Tok("big"), Plan{Gate: true, Size: 40000}))
		rig.W.WaitStarted(big.Tok, 300*time.Millisecond)
		rig.W.Release(big.Tok)
	})
	step(func() {
		for i := 0; i < 4; i++ {
			add(rig.Go(cl, "call", rig.Tok("q"), Plan{Size: (i % 2) * 5000}))
		}
		add(rig.Go(cl, "notify", rig.Tok("n"), Plan{}))
	})
	step(func() {
		if s1 != nil {
			rig.W.Tick(s1.Tok, 3)
		}
		if g1 != nil {
			rig.W.Release(g1.Tok)
		}
		s2 := add(rig.Go(cl, "sub", rig.Tok("s"), Plan{N: 3, Early: 3}))
		select {
		case <-s2.Done:
		case <-time.After(300 * time.Millisecond):
		}
	})
	step(func() { time.Sleep(5 * time.Millisecond) })
}

func runC18(c c18Case, countOnly bool) (*Violation, map[string]int, string) {
	if c.Workload == "http" || c.Workload == "custom" {
		return runC18Plain(c.Workload), nil, ""
	}
	rig, err := NewRig(RigOpts{BackoffMin: 4 * time.Millisecond, BackoffMax: 12 * time.Millisecond})
	if err != nil {
		return nil, nil, "rig"
	}
	defer rig.Close()
	cl, err := rig.NewClient("c")
	if err != nil {
		return nil, nil, "client"
	}
	run := &c18Run{rig: rig, cl: cl, closed: make(chan struct{}), cancelAtClose: c.CancelAtClose}
	rules := append([]*HookRule{}, c.Rules...)
	if !countOnly {
		switch c.TrigPoint {
		case "end":
		case "dial":
			cl.Dial.mu.Lock()
			cl.Dial.OnBegin = func(k int) {
				if k == c.TrigOcc {
					run.fireClose()
					time.Sleep(time.Millisecond)
				}
			}
			cl.Dial.mu.Unlock()
		default:
			r := &HookRule{Point: c.TrigPoint, Occ: c.TrigOcc, Side: "client", HoldU: 1000, Trigger: run.fireClose}
			if c.HoldLong {
				r.HoldU, r.HoldUntil = 30000, run.closed
			}
			rules = append(rules, r)
		}
	}
	hooks.Reset(rules...)
	run.workload(c.Workload)
	counts := hooks.Counts()
	counts["dial|client"] = len(cl.Dial.Begins())
	if countOnly {
		hooks.Off()
		for _, p := range run.calls {
			rig.W.Release(p.Tok)
		}
		return nil, counts, ""
	}
	run.fireClose() // "end", or the chosen occurrence never happened in this run
	defer hooks.Off()

	// 1. the closer returns
	select {
	case <-run.closed:
	case <-time.After(7 * time.Second):
	}
	if atomic.LoadInt32(&run.closeOK) != 1 {
		return violf("closer-hang", "the closer, invoked at %s#%d of workload %s, did not return within 6s; hook history: %v", c.TrigPoint, c.TrigOcc, c.Workload, hooks.History(30)), counts, ""
	}
	closedAt := time.Now()
	// handlers may still be gated on the server: release them (their calls must return regardless)
	// 2. every call that was in flight returns
	if out := AwaitReturn(run.calls, 3*time.Second); len(out) > 0 {
		return violf("call-blocked-after-close", "call %s (%s) is still blocked 3s after the closer returned (close at %s#%d, workload %s); hook history: %v", out[0].Tok, out[0].Kind, c.TrigPoint, c.TrigOcc, c.Workload, hooks.History(30)), counts, ""
	}
	if out := AwaitReturn(run.subs, 3*time.Second); len(out) > 0 {
		return violf("call-blocked-after-close", "subscribing call %s is still blocked 3s after the closer returned (close at %s#%d)", out[0].Tok, c.TrigPoint, c.TrigOcc), counts, ""
	}
	for _, p := range run.calls {
		if v := p.CheckOwn(); v != nil {
			return v, counts, ""
		}
		if p.Err != nil && strings.HasPrefix(p.Err.Error(), "CLIENT-PANIC") {
			return violf("client-panic", "call %s panicked: %v", p.Tok, p.Err), counts, ""
		}
	}
	// 3. every channel obtained from the client is closed
	for _, s := range run.subs {
		if s.Ch == nil {
			continue
		}
		if _, closed := drain(s.Ch, 3*time.Second); !closed {
			return violf("channel-open-after-close", "channel of %s is still open 3s after the closer returned (close at %s#%d, workload %s)", s.Tok, c.TrigPoint, c.TrigOcc, c.Workload), counts, ""
		}
	}
	// 4. later calls fail promptly
	for _, kind := range []string{"call", "notify", "sub", "retry"} {
		p := rig.Go(cl, kind, rig.Tok("late"), Plan{})
		select {
		case <-p.Done:
		case <-time.After(2 * time.Second):
			return violf("late-call-blocks", "a %s issued after the closer returned did not return within 2s", kind), counts, ""
		}
		if p.Err == nil {
			if kind == "sub" && p.Ch != nil {
				if _, closed := drain(p.Ch, time.Second); closed {
					continue
				}
			}
			return violf("late-call-succeeds", "a %s issued after the closer returned did not fail (res %+v)", kind, truncRes(p.Res)), counts, ""
		}
		if strings.HasPrefix(p.Err.Error(), "CLIENT-PANIC") {
			return violf("client-panic", "a %s issued after close panicked: %v", kind, p.Err), counts, ""
		}
	}
	// 5. no reconnection is attempted after the close
	time.Sleep(40 * time.Millisecond)
	if n := cl.Dial.AfterClose(); n > 0 {
		return violf("dial-after-close", "%d dial(s) began after the closer had returned (close at %s#%d, workload %s, %v after close); hook history: %v", n, c.TrigPoint, c.TrigOcc, c.Workload, time.Since(closedAt), hooks.History(20)), counts, ""
	}
	for _, p := range run.calls {
		rig.W.Release(p.Tok)
	}
	return nil, counts, ""
}

// http and custom transports: the closer returns immediately and calls in progress complete normally
func runC18Plain(transport string) *Violation {
	rig, err := NewRig(RigOpts{NoProxy: true})
	if err != nil {
		return nil
	}
	defer rig.Close()
	var cl *RigClient
	if transport == "http" {
		cl, err = rig.NewHTTPClient("h")
	} else {
		cl = &RigClient{ID: "custom"}
		var hc struct {
			Call  func(ctx context.Context, tok string, plan Plan) (Result, error)
			NoCtx func(tok string, plan Plan) (Result, error) `rpc_method:"Tok.Call"`
		}
		// a transport that honours the context it is given, as an http-based one would
		cl.closer, err = jsonrpc.NewCustomClient("Tok", []interface{}{&hc}, func(ctx context.Context, body []byte) (io.ReadCloser, error) {
			var buf bytes.Buffer
			done := make(chan struct{})
			go func() {
				defer close(done)
				rig.RPC.HandleRequest(context.WithoutCancel(ctx), bytes.NewReader(body), &buf)
			}()
			select {
			case <-done:
				return io.NopCloser(&buf), nil
			case <-ctx.Done():
				return nil, ctx.Err()
			}
		})
		cl.C.NoCtx = hc.NoCtx
		cl.C.Call = hc.Call
	}
	if err != nil {
		return nil
	}
	var ps []*Pending
	for i := 0; i < 3; i++ {
		ps = append(ps, rig.Go(cl, "call", rig.Tok("p"), Plan{Gate: true, Size: i * 3000}))
	}
	// calls through functions without a context parameter
	for i := 0; i < 2; i++ {
		ps = append(ps, rig.Go(cl, "noctx", rig.Tok("pn"), Plan{Gate: true, Size: i * 5000}))
	}
	for _, p := range ps {
		rig.W.WaitStarted(p.Tok, 2*time.Second)
	}
	t0 := time.Now()
	if !cl.Close(2*time.Second) || time.Since(t0) > time.Second {
		return violf("plain-closer-blocks", "the %s client's closer took %v with calls in progress", transport, time.Since(t0))
	}
	for _, p := range ps {
		rig.W.Release(p.Tok)
	}
	if out := AwaitReturn(ps, 3*time.Second); len(out) > 0 {
		return violf("plain-call-disturbed", "%s call %s in progress when the closer was invoked never returned", transport, out[0].Tok)
	}
	for _, p := range ps {
		if p.Err != nil {
			return violf("plain-call-disturbed", "%s call %s in progress when the closer was invoked failed: %v", transport, p.Tok, p.Err)
		}
		if v := p.CheckOwn(); v != nil {
			return v
		}
	}
	return nil
}

var c18LongHoldPoints = map[string]bool{"frame.read": true, "resp.found": true, "resp.delivered": true, "chan.sink": true, "chan.close": true}

var c18Points = []string{"req.accepted", "inflight.registered", "write.locked", "resp.found", "resp.delivered", "chan.sink", "chan.close", "frame.read", "cancel.send", "reconnect.begin", "closechans.begin", "dial"}

func c18NT(c c18Case) (bool, []string) {
	cl := []string{"workload_" + c.Workload, "at_" + c.TrigPoint}
	if c.CancelAtClose {
		cl = append(cl, "cancel_at_close")
	}
	if len(c.Rules) > 0 {
		cl = append(cl, "with_delays")
	}
	if c.HoldLong {
		cl = append(cl, "hold_until_closed")
	}
	return c.TrigPoint != "end", cl
}

const c18Rule = "mixed workload A (a call whose answer cannot be decoded and which therefore stays in flight, paced stream, gated calls awaiting responses, 40 kB multi-frame response, burst of queued calls and a notification, second subscription) and B (A plus a connection reset with refused redials, calls issued between connections incl. retry-tagged, heal), C (B with the connection cut inside a frame) and D (B with two such outages, work in flight at each loss); a counting pass records how often each client-side yield point (and each dial) occurs, then the closer is fired at occurrence k of point p with the library goroutine held for 1 ms (and, on the frame-consuming paths, a variant held until the closer has returned, at most 30 ms): every (p,k) in thorough, a stratified sample in quick, plus rapid-drawn (p,k) with delays at exit.exiting-closed / stop.begin / closechans.begin; http and custom clients are closed with calls (with and without a context parameter) in progress. Non-trivial = close fired from inside a yield point (not at the quiescent end); distinct by descriptor hash"

func TestC18(t *testing.T) {
	rec := NewRec("C18", c18Rule)
	defer rec.Finish(t)
	rec.EnableJournal()
	rec.RequireClass("hold_until_closed", "workload_C", "cancel_at_close", "workload_A", "workload_B", "workload_D", "workload_http", "workload_custom", "at_dial", "at_reconnect.begin", "at_frame.read", "at_write.locked", "at_resp.found", "at_chan.sink", "with_delays")
	run := func(ft failer, c c18Case) {
		nt, cl := c18NT(c)
		rec.Run(ft, c, nt, cl, func() *Violation {
			v, _, _ := runC18(c, false)
			if v != nil && v.Key != "foreign-result" {
				if v2, _, _ := runC18(c, false); v2 == nil {
					rec.Class("unconfirmed", 1)
					return nil
				}
			}
			return v
		})
	}
	counts := map[string]map[string]int{}
	var cmu sync.Mutex
	getCounts := func(w string) map[string]int {
		cmu.Lock()
		defer cmu.Unlock()
		if counts[w] == nil {
			_, m, _ := runC18(c18Case{Workload: w}, true)
			counts[w] = m
		}
		return counts[w]
	}
	rec.Regress(t, func(raw json.RawMessage) *Violation {
		var c c18Case
		if json.Unmarshal(raw, &c) != nil {
			return nil
		}
		v, _, _ := runC18(c, false)
		return v
	})
	t.Run("grid", func(t *testing.T) {
		sh, nsh := shard()
		run(t, c18Case{Workload: "http", TrigPoint: "end"})
		run(t, c18Case{Workload: "custom", TrigPoint: "end"})
		k := 0
		for _, w := range []string{"A", "B", "C", "D"} {
			m := getCounts(w)
			run(t, c18Case{Workload: w, TrigPoint: "end"})
			keys := make([]string, 0, len(m))
			for key := range m {
				keys = append(keys, key)
			}
			sort.Strings(keys)
			total := 0
			for _, key := range keys {
				if !strings.HasSuffix(key, "|client") {
					continue
				}
				pt := strings.TrimSuffix(key, "|client")
				n := m[key]
				total += n
				for occ := 1; occ <= n; occ++ {
					k++
					if k%nsh != sh {
						continue
					}
					// quick: the first two, the last, and a seed-dependent stride in between
					if !thorough() && occ > 2 && occ != n && ((occ+envInt("VERIF_SEED", 1))%11 != 0 || w == "C" || w == "D") {
						continue
					}
					run(t, c18Case{Workload: w, TrigPoint: pt, TrigOcc: occ})
					// on the paths that consume frames, also let the whole close sequence land inside the window
					if c18LongHoldPoints[pt] && (thorough() || occ <= 3) {
						run(t, c18Case{Workload: w, TrigPoint: pt, TrigOcc: occ, HoldLong: true})
					}
				}
			}
			rec.SetExtra("yield_occurrences_workload_"+w, total)
		}
		// close while a redial is under way, with the connection goroutine slow to finish its exit sequence
		for _, occ := range []int{2, 3, 4} {
			for _, pt := range []string{"dial", "reconnect.begin"} {
				run(t, c18Case{Workload: "B", TrigPoint: pt, TrigOcc: occ - map[string]int{"dial": 0, "reconnect.begin": 1}[pt],
					Rules: []*HookRule{{Point: "exit.exiting-closed", Occ: 0, Side: "client", DelayU: 30000}}})
			}
		}
		// contexts cancelled while the closer is at work (slow stop / slow exit)
		for _, w := range []string{"A", "B", "C", "D"} {
			for _, pt := range []string{"resp.delivered", "write.locked", "req.accepted"} {
				run(t, c18Case{Workload: w, TrigPoint: pt, TrigOcc: 3, CancelAtClose: true, Rules: []*HookRule{{Point: "stop.begin", Occ: 0, Side: "client", DelayU: 15000}}})
			}
		}
		rec.Exhaustive(false)
	})
	rec.Rapid(t, "rapid", func(rt *rapid.T) {
		w := rapid.SampledFrom([]string{"A", "B", "B", "C", "C", "D"}).Draw(rt, "workload")
		m := getCounts(w)
		pt := rapid.SampledFrom(c18Points).Draw(rt, "point")
		n := m[pt+"|client"]
		if n < 1 {
			n = 1
		}
		c := c18Case{Workload: w, TrigPoint: pt, TrigOcc: rapid.IntRange(1, n+1).Draw(rt, "occ"), CancelAtClose: rapid.IntRange(0, 2).Draw(rt, "cancelatclose") == 0}
		nr := rapid.IntRange(0, 2).Draw(rt, "nrules")
		for i := 0; i < nr; i++ {
			c.Rules = append(c.Rules, &HookRule{Point: rapid.SampledFrom([]string{"exit.exiting-closed", "stop.begin", "closechans.begin", "reconnect.begin", "write.locked"}).Draw(rt, fmt.Sprintf("pt%d", i)),
				Occ: rapid.IntRange(0, 2).Draw(rt, fmt.Sprintf("occ%d", i)), Side: "client", DelayU: rapid.SampledFrom([]int{500, 5000, 20000}).Draw(rt, fmt.Sprintf("d%d", i))})
			if r := c.Rules[len(c.Rules)-1]; r.Occ == 0 && r.Point == "write.locked" {
				r.DelayU = 200
			}
		}
		run(rt, c)
	})
}

func TestC18Replay(t *testing.T) {
	Replay(t, "C18", 10, func(raw json.RawMessage) *Violation {
		var c c18Case
		if err := json.Unmarshal(raw, &c); err != nil {
			return nil
		}
		v, _, _ := runC18(c, false)
		return v
	})
}
