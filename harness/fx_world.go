package harness

// Token world: handlers used by the stateful properties. Every call carries a
// unique token and a plan; every value that travels back carries its call's
// token, so foreign results, duplicate executions, lost or reordered stream
// values and spurious cancellations are directly observable.

import (
	"context"
	"errors"
	"fmt"
	"io"
	"math"
	"net/http"
	"strings"
	"sync"
	"sync/atomic"
	"time"

	jsonrpc "github.com/filecoin-project/go-jsonrpc"
)

type Plan struct {
	Gate     bool   `json:"gate,omitempty"`      // block until the harness releases the token's gate
	WatchCtx bool   `json:"watch_ctx,omitempty"` // while gated, return ctx.Err() as soon as ctx is done
	Fail     string `json:"fail,omitempty"`      // return this handler error
	Panic    string `json:"panic,omitempty"`     // panic payload kind: string | error | nilmap | nilptr | custom | index
	Size     int    `json:"size,omitempty"`      // pad the result to this many bytes
	Reverse  int    `json:"reverse,omitempty"`   // reverse calls to make before returning
	RevBoom  bool   `json:"rev_boom,omitempty"`  // additionally reverse-call a client-side handler that panics
	RevSlow  bool   `json:"rev_slow,omitempty"`  // additionally reverse-call a client-side handler that blocks until released
	RevAlias bool   `json:"rev_alias,omitempty"` // additionally reverse-call through a tagged field that resolves via a client-side alias
	RevBurst int    `json:"rev_burst,omitempty"` // additionally make this many concurrent reverse calls with 1 MiB arguments and wait for all
	ReactMs  int    `json:"react_ms,omitempty"`  // time the handler keeps running after its ctx was cancelled
	NaNAt    int    `json:"nan_at,omitempty"`    // SubFloat: index of the element that is NaN (0 = none... use -1 for none)
	Junk     string `json:"junk,omitempty"`      // ignored by the handler; inflates the request (longer decode window)

	// subscriptions
	N            int     `json:"n,omitempty"`              // values to send
	Early        int     `json:"early,omitempty"`          // values placed in the channel buffer before the handler returns
	Pace         bool    `json:"pace,omitempty"`           // each further send waits for a harness tick
	Linger       bool    `json:"linger,omitempty"`         // after N values keep the channel open until ctx is done
	IgnoreCtx    bool    `json:"ignore_ctx,omitempty"`     // the stream handler never looks at its context (keeps sending / lingering)
	ElemPad      int     `json:"elem_pad,omitempty"`       // pad each stream element
	Bad          float64 `json:"bad,omitempty"`            // NaN / Inf here makes the arguments unmarshalable: the call fails in the client before anything is sent
	ViaSub       bool    `json:"via_sub,omitempty"`        // notify: the notification goes to the channel-returning method (Tok.Sub) instead of Tok.Notify
	NoCtx        bool    `json:"no_ctx,omitempty"`         // retry: through the retry-tagged client function that takes no context
	RevRetry     bool    `json:"rev_retry,omitempty"`      // reverse calls go through retry-tagged fields of the reverse client
	RevBig       int     `json:"rev_big,omitempty"`        // one reverse call whose argument, and therefore the client's response, has this many bytes
	RevStream    int     `json:"rev_stream,omitempty"`     // the handler subscribes to a stream of this many elements served by the calling client
	RevStreamPad int     `json:"rev_stream_pad,omitempty"` // padding of every (odd) element of that stream
	ViaAlias     bool    `json:"via_alias,omitempty"`      // sub: through the client function bound to a server-side alias of Tok.Sub
	TagFalse     bool    `json:"tag_false,omitempty"`      // call: through the client function tagged retry:"false" (an ordinary call)
	RevSticky    int     `json:"rev_sticky,omitempty"`     // the handler subscribes to a client-served stream of this many elements whose producer ignores its context
	Bare         bool    `json:"bare,omitempty"`           // subscribe through the method whose only result is the channel (no error result)
	ChanCap      int     `json:"chan_cap,omitempty"`       // capacity of the channel the handler returns (at least Early)
	Flood        bool    `json:"flood,omitempty"`          // the producer never pauses: it keeps the returned channel's buffer full until the context ends (N is ignored)
}

type Result struct {
	Tok  string `json:"tok"`
	Echo string `json:"echo"`
	Rev  string `json:"rev,omitempty"` // identities returned by reverse calls, comma separated
	Pad  string `json:"pad,omitempty"`
}

type Item struct {
	Tok string `json:"tok"`
	Seq int    `json:"seq"`
	Pad string `json:"pad,omitempty"`
}

type tokState struct {
	started   int
	finished  int
	ctx       context.Context
	gate      chan struct{}
	tick      chan struct{}
	sent      int  // stream values handed to the channel
	closedCh  bool // handler closed its stream
	ctxErrAt  []string
	connType  jsonrpc.ConnectionType
	revErrs   []string
	notes     []string
	inReverse bool
	startedCh chan struct{}
}

type World struct {
	mu   sync.Mutex
	toks map[string]*tokState
	quit chan struct{} // closed when the rig is torn down: releases handlers that ignore their context
}

func NewWorld() *World { return &World{toks: map[string]*tokState{}, quit: make(chan struct{})} }

func (w *World) Quit() {
	defer func() { recover() }()
	close(w.quit)
}

func (w *World) st(tok string) *tokState {
	s := w.toks[tok]
	if s == nil {
		s = &tokState{gate: make(chan struct{}), tick: make(chan struct{}, 4096), startedCh: make(chan struct{})}
		w.toks[tok] = s
	}
	return s
}

func (w *World) enter(ctx context.Context, tok string) *tokState {
	w.mu.Lock()
	defer w.mu.Unlock()
	s := w.st(tok)
	s.started++
	s.ctx = ctx
	s.connType = jsonrpc.GetConnectionType(ctx)
	if s.started == 1 {
		close(s.startedCh)
	}
	return s
}

func (w *World) leave(tok string) {
	w.mu.Lock()
	w.st(tok).finished++
	w.mu.Unlock()
}

func (w *World) Started(tok string) int {
	w.mu.Lock()
	defer w.mu.Unlock()
	return w.st(tok).started
}

func (w *World) Finished(tok string) int {
	w.mu.Lock()
	defer w.mu.Unlock()
	return w.st(tok).finished
}

// Running reports whether a handler execution for tok is in progress.
func (w *World) Running(tok string) bool {
	w.mu.Lock()
	defer w.mu.Unlock()
	s := w.st(tok)
	return s.started > s.finished
}

// RunningCount returns the number of handler executions in progress.
func (w *World) RunningCount() int {
	w.mu.Lock()
	defer w.mu.Unlock()
	n := 0
	for _, s := range w.toks {
		if s.started > s.finished {
			n++
		}
	}
	return n
}

func (w *World) Release(tok string) {
	w.mu.Lock()
	s := w.st(tok)
	w.mu.Unlock()
	defer func() { recover() }() // double release is harmless
	close(s.gate)
}

func (w *World) Tick(tok string, n int) {
	w.mu.Lock()
	s := w.st(tok)
	w.mu.Unlock()
	for i := 0; i < n; i++ {
		select {
		case s.tick <- struct{}{}:
		default:
		}
	}
}

func (w *World) WaitStarted(tok string, d time.Duration) bool {
	w.mu.Lock()
	s := w.st(tok)
	w.mu.Unlock()
	select {
	case <-s.startedCh:
		return true
	case <-time.After(d):
		return false
	}
}

// Ctx returns the context captured by the (last) handler execution for tok.
func (w *World) Ctx(tok string) context.Context {
	w.mu.Lock()
	defer w.mu.Unlock()
	return w.st(tok).ctx
}

func (w *World) Sent(tok string) (int, bool) {
	w.mu.Lock()
	defer w.mu.Unlock()
	s := w.st(tok)
	return s.sent, s.closedCh
}

func (w *World) InReverse(tok string) bool {
	w.mu.Lock()
	defer w.mu.Unlock()
	return w.st(tok).inReverse
}

func (w *World) RevErrs(tok string) []string {
	w.mu.Lock()
	defer w.mu.Unlock()
	return append([]string{}, w.st(tok).revErrs...)
}

// Note / Notes: free-form observations a handler leaves for the harness (the handler's own result may never arrive).
func (w *World) Note(tok, what string) {
	w.mu.Lock()
	s := w.st(tok)
	s.notes = append(s.notes, what)
	w.mu.Unlock()
}

func (w *World) Notes(tok string) []string {
	w.mu.Lock()
	defer w.mu.Unlock()
	return append([]string{}, w.st(tok).notes...)
}

func expectedEcho(tok string) string { return "res:" + tok }

func padFor(tok string, n int) string {
	if n <= 0 {
		return ""
	}
	var b strings.Builder
	for b.Len() < n {
		b.WriteString(tok)
		b.WriteByte('|')
	}
	return b.String()[:n]
}

type customPanic struct{ A int }

// nilStringer / nilErr: typed nil pointers whose own String()/Error() methods dereference the receiver,
// i.e. panic payloads that panic again when something tries to format them naively.
type nilStringer struct{ s string }

func (n *nilStringer) String() string { return n.s }

type nilErr struct{ s string }

func (n *nilErr) Error() string { return n.s }

// RevClient is the reverse-call proxy struct handlers extract from their context.
type RevClient struct {
	Ident func(ctx context.Context, tok string) (string, error)
	Alias func(ctx context.Context, tok string) (string, error) `rpc_method:"rev.alias"`
	Slow  func(ctx context.Context, tok string) (string, error)
	Boom  func(ctx context.Context, tok string) (string, error)
	Event func(ctx context.Context, tok string) error `notify:"true"`
	// retry-tagged twins of Ident and Slow
	IdentRetry func(ctx context.Context, tok string) (string, error) `retry:"true" rpc_method:"Rev.Ident"`
	SlowRetry  func(ctx context.Context, tok string) (string, error) `retry:"true" rpc_method:"Rev.Slow"`
	// Stream is served by the client: a reverse-direction subscription
	Stream func(ctx context.Context, tok string, n int, pad int) (<-chan Item, error)
	// Sticky is a client-served stream whose producer is slow to notice that its context ended (see RevHandler.Sticky)
	Sticky func(ctx context.Context, tok string, n int) (<-chan Item, error)
	// Other lives on a second client-side handler, registered under its own namespace
	Other func(ctx context.Context, tok string) (string, error) `rpc_method:"Rev2.Other"`
}

type TokAPI struct{ W *World }

func (a *TokAPI) body(ctx context.Context, tok string, plan Plan) (Result, error) {
	s := a.W.enter(ctx, tok)
	defer a.W.leave(tok)
	if plan.Gate {
		var done <-chan struct{}
		if plan.WatchCtx {
			done = ctx.Done()
		}
		select {
		case <-s.gate:
		case <-done:
			if plan.ReactMs > 0 {
				time.Sleep(time.Duration(plan.ReactMs) * time.Millisecond)
			}
			if plan.Panic != "" {
				panic("cleanup-after-cancel-boom-" + tok)
			}
			return Result{}, ctx.Err()
		}
	}
	var revs []string
	for i := 0; i < plan.Reverse; i++ {
		rc, ok := jsonrpc.ExtractReverseClient[RevClient](ctx)
		if !ok {
			revs = append(revs, "!absent")
			continue
		}
		ident := rc.Ident
		if plan.RevRetry {
			ident = rc.IdentRetry
		}
		id, err := ident(ctx, tok)
		if err != nil {
			a.W.mu.Lock()
			s.revErrs = append(s.revErrs, err.Error())
			a.W.mu.Unlock()
			revs = append(revs, "!err")
			continue
		}
		revs = append(revs, id)
	}
	if plan.RevBig > 0 {
		if rc, ok := jsonrpc.ExtractReverseClient[RevClient](ctx); ok {
			big := padFor(tok, plan.RevBig)
			if id, err := rc.Ident(ctx, big); err != nil {
				revs = append(revs, "!big-err")
				a.W.Note(tok, "big-err: "+err.Error())
			} else if !strings.HasSuffix(id, "/"+big) {
				revs = append(revs, "!big-corrupt")
				a.W.Note(tok, "big-corrupt")
			} else {
				revs = append(revs, "big-ok")
				a.W.Note(tok, "big-ok")
			}
		} else {
			revs = append(revs, "!absent")
		}
	}
	if plan.RevStream > 0 {
		if rc, ok := jsonrpc.ExtractReverseClient[RevClient](ctx); ok {
			revs = append(revs, consumeRevStream(ctx, rc, tok, plan.RevStream, plan.RevStreamPad))
		} else {
			revs = append(revs, "!absent")
		}
	}
	if plan.RevSticky > 0 {
		if rc, ok := jsonrpc.ExtractReverseClient[RevClient](ctx); ok {
			revs = append(revs, consumeRevSticky(ctx, a.W, rc, tok, plan.RevSticky))
		} else {
			revs = append(revs, "!absent")
		}
	}
	if plan.RevBurst > 0 {
		if rc, ok := jsonrpc.ExtractReverseClient[RevClient](ctx); ok {
			a.W.mu.Lock()
			s.inReverse = true
			a.W.mu.Unlock()
			big := padFor(tok, 1<<20)
			// the reverse calls get a context that is NOT cancelled when the connection ends: only the library's own
			// "fail instead of block" path may release them
			ctx := context.WithoutCancel(ctx)
			var wg sync.WaitGroup
			var nerr int32
			for i := 0; i < plan.RevBurst; i++ {
				wg.Add(1)
				go func(i int) {
					defer wg.Done()
					if i%2 == 1 {
						// every second one is a reverse *notification*
						if err := rc.Event(ctx, big); err != nil {
							atomic.AddInt32(&nerr, 1)
						}
						return
					}
					if _, err := rc.Ident(ctx, big); err != nil {
						atomic.AddInt32(&nerr, 1)
					}
				}(i)
			}
			wg.Wait()
			a.W.mu.Lock()
			s.inReverse = false
			a.W.mu.Unlock()
			revs = append(revs, fmt.Sprintf("burst:%d/%d", plan.RevBurst-int(nerr), plan.RevBurst))
		} else {
			revs = append(revs, "!absent")
		}
	}
	if plan.RevAlias {
		if rc, ok := jsonrpc.ExtractReverseClient[RevClient](ctx); ok {
			id, err := rc.Alias(ctx, tok)
			id2, err2 := rc.Other(ctx, tok)
			if err != nil {
				id = "!E1"
			}
			if err2 != nil {
				id2 = "!E2" // expected when the calling client registered only one handler
			}
			revs = append(revs, id+"&"+id2)
		} else {
			revs = append(revs, "!absent")
		}
	}
	if plan.RevSlow {
		if rc, ok := jsonrpc.ExtractReverseClient[RevClient](ctx); ok {
			a.W.mu.Lock()
			s.inReverse = true
			a.W.mu.Unlock()
			slow := rc.Slow
			if plan.RevRetry {
				slow = rc.SlowRetry
			}
			id, err := slow(ctx, tok)
			a.W.mu.Lock()
			s.inReverse = false
			if err != nil {
				s.revErrs = append(s.revErrs, err.Error())
			}
			a.W.mu.Unlock()
			if err != nil {
				revs = append(revs, "!err")
			} else {
				revs = append(revs, id)
			}
		} else {
			revs = append(revs, "!absent")
		}
	}
	if plan.RevBoom {
		if rc, ok := jsonrpc.ExtractReverseClient[RevClient](ctx); ok {
			_, err := rc.Boom(ctx, tok)
			if err == nil {
				revs = append(revs, "!boom-no-error")
			} else {
				revs = append(revs, "boom:"+err.Error())
			}
		} else {
			revs = append(revs, "!absent")
		}
	}
	switch plan.Panic {
	case "":
	case "string":
		panic("boom-" + tok)
	case "error":
		panic(errors.New("boom-" + tok))
	case "nilmap":
		var m map[string]int
		m[tok] = 1
	case "nilptr":
		var p *Result
		_ = p.Tok
	case "custom":
		panic(customPanic{A: 7})
	case "funcstruct":
		panic(struct {
			F func()
			C chan int
		}{func() {}, make(chan int)})
	case "chan":
		panic(make(chan struct{}))
	case "nan":
		panic(math.NaN())
	case "ctrlbytes":
		// a text as it would come from formatting a corrupt binary header: control bytes, DEL, a tag-space rune
		panic("boom-\x01\a\v\x1b\x7f\U000e0001-" + tok)
	case "badutf8":
		panic(fmt.Errorf("boom-\xff\xfe\xc0\xaf-%s", tok))
	case "longnoblank":
		// e.g. a minified document or a hex dump: long, and without a single blank
		panic(strings.Repeat("0123456789abcdef", 200) + "-" + tok)
	case "nilstringer":
		var n *nilStringer
		panic(n)
	case "nilerror":
		var n *nilErr
		panic(error(n))
	case "index":
		var sl []int
		_ = sl[len(tok)]
	case "aborthandler":
		// sentinel values other layers give a meaning to: a panic is a panic whatever its payload
		panic(http.ErrAbortHandler)
	case "eof":
		panic(io.EOF)
	case "ctxcanceled":
		panic(context.Canceled)
	default:
		panic(plan.Panic)
	}
	if plan.Fail != "" {
		return Result{Tok: tok, Echo: "must-not-arrive"}, errors.New(plan.Fail)
	}
	return Result{Tok: tok, Echo: expectedEcho(tok), Rev: strings.Join(revs, ","), Pad: padFor(tok, plan.Size)}, nil
}

func (a *TokAPI) Call(ctx context.Context, tok string, plan Plan) (Result, error) {
	return a.body(ctx, tok, plan)
}

// Notify is reached through a notify-tagged client field.
func (a *TokAPI) Notify(ctx context.Context, tok string, plan Plan) error {
	_, err := a.body(ctx, tok, plan)
	return err
}

// Sub streams plan.N items carrying (tok, seq).
func (a *TokAPI) Sub(ctx context.Context, tok string, plan Plan) (<-chan Item, error) {
	return subGeneric(a, ctx, tok, plan, func(seq int) Item { return Item{Tok: tok, Seq: seq, Pad: padFor(tok, plan.ElemPad)} })
}

// NotAChan is what TokClient.Mismatch is bound to.
func (a *TokAPI) NotAChan(ctx context.Context, tok string, plan Plan) (string, error) {
	return "not-a-channel-id", nil
}

// SubBare is Sub without an error result: a method whose only result is a channel.
func (a *TokAPI) SubBare(ctx context.Context, tok string, plan Plan) <-chan Item {
	ch, _ := subGeneric(a, ctx, tok, plan, func(seq int) Item { return Item{Tok: tok, Seq: seq, Pad: padFor(tok, plan.ElemPad)} })
	return ch
}

// SubInt streams integers that encode (hash of tok, seq).
func (a *TokAPI) SubInt(ctx context.Context, tok string, plan Plan) (<-chan int64, error) {
	return subGeneric(a, ctx, tok, plan, func(seq int) int64 { return IntItem(tok, seq) })
}

// SubStr streams strings "<tok>#<seq>".
func (a *TokAPI) SubStr(ctx context.Context, tok string, plan Plan) (<-chan string, error) {
	return subGeneric(a, ctx, tok, plan, func(seq int) string { return StrItem(tok, seq) })
}

// SubFloat streams float64(seq) but replaces the element at index plan.Early+1.. no: at index NaNAt with NaN, which
// encoding/json cannot encode: that one element cannot travel, everything else (and every other stream) must.
func (a *TokAPI) SubFloat(ctx context.Context, tok string, plan Plan) (<-chan float64, error) {
	return subGeneric(a, ctx, tok, plan, func(seq int) float64 {
		if seq == plan.NaNAt {
			return math.NaN()
		}
		return float64(seq) + 0.5
	})
}

// Rich is an element type with optional fields, a map, a slice and a pointer whose presence varies per element.
type Rich struct {
	Tok  string         `json:"tok"`
	Seq  int            `json:"seq"`
	Opt  string         `json:"opt,omitempty"`
	M    map[string]int `json:"m,omitempty"`
	S    []int          `json:"s,omitempty"`
	P    *Inner         `json:"p,omitempty"`
	Flag bool           `json:"flag,omitempty"`
}

func RichItem(tok string, seq int) Rich {
	r := Rich{Tok: tok, Seq: seq}
	if seq%2 == 0 {
		r.Opt = fmt.Sprintf("opt-%d", seq)
	}
	if seq%3 == 0 {
		r.M = map[string]int{fmt.Sprintf("k%d", seq): seq, "common": seq}
	}
	if seq%3 == 1 {
		r.S = make([]int, 1+seq%4)
		for i := range r.S {
			r.S[i] = seq*10 + i
		}
	}
	if seq%4 == 1 {
		r.P = &Inner{N: int64(seq), S: "p"}
	}
	r.Flag = seq%5 == 0
	return r
}

func (a *TokAPI) SubRich(ctx context.Context, tok string, plan Plan) (<-chan Rich, error) {
	return subGeneric(a, ctx, tok, plan, func(seq int) Rich { return RichItem(tok, seq) })
}

func IntItem(tok string, seq int) int64 {
	var h int64
	for _, c := range tok {
		h = (h*131 + int64(c)) % 1000003
	}
	return h*1000000 + int64(seq)
}

// strItemTails: what real text streams carry (ANSI colour codes, bells, vertical tabs, NUL, DEL, markup, line separators,
// non-ASCII); a pure function of seq so that producer and consumer agree.
var strItemTails = []string{"", "\x1b[31mred\x1b[0m", "\a", "\v\x00", "\x7f", "<&>\"\\", "\u2028\u2029", "\u00e9\U0001F600"}

func StrItem(tok string, seq int) string {
	return fmt.Sprintf("%s#%d%s", tok, seq, strItemTails[seq%len(strItemTails)])
}

func subGeneric[T any](a *TokAPI, ctx context.Context, tok string, plan Plan, mk func(seq int) T) (<-chan T, error) {
	s := a.W.enter(ctx, tok)
	if plan.Fail != "" {
		a.W.leave(tok)
		return nil, errors.New(plan.Fail)
	}
	if plan.Panic != "" {
		defer a.W.leave(tok)
		panic("boom-" + tok)
	}
	if plan.Gate {
		// the subscribing call itself stays pending until released
		var done <-chan struct{}
		if plan.WatchCtx {
			done = ctx.Done()
		}
		select {
		case <-s.gate:
		case <-done:
			a.W.leave(tok)
			return nil, ctx.Err()
		case <-a.W.quit:
			a.W.leave(tok)
			return nil, errors.New("world torn down")
		}
	}
	early := plan.Early
	if early > plan.N {
		early = plan.N
	}
	capacity := early
	if plan.ChanCap > capacity {
		capacity = plan.ChanCap
	}
	ch := make(chan T, capacity)
	for i := 0; i < early; i++ {
		ch <- mk(i)
	}
	a.W.mu.Lock()
	s.sent = early
	a.W.mu.Unlock()
	go func() {
		defer a.W.leave(tok)
		done := ctx.Done()
		if plan.IgnoreCtx {
			done = a.W.quit
		}
		for i := early; i < plan.N || plan.Flood; i++ {
			if plan.Pace {
				select {
				case <-s.tick:
				case <-done:
					a.note(s, ctx, i)
					close(ch)
					a.markClosed(s)
					return
				}
			}
			select {
			case ch <- mk(i):
				a.W.mu.Lock()
				s.sent = i + 1
				a.W.mu.Unlock()
			case <-done:
				a.note(s, ctx, i)
				close(ch)
				a.markClosed(s)
				return
			}
		}
		if plan.Linger {
			<-done
			if plan.ReactMs > 0 {
				time.Sleep(time.Duration(plan.ReactMs) * time.Millisecond)
			}
		}
		close(ch)
		a.markClosed(s)
	}()
	return ch, nil
}

func (a *TokAPI) note(s *tokState, ctx context.Context, at int) {
	a.W.mu.Lock()
	s.ctxErrAt = append(s.ctxErrAt, fmt.Sprintf("seq=%d err=%v", at, ctx.Err()))
	a.W.mu.Unlock()
}

func (a *TokAPI) markClosed(s *tokState) {
	a.W.mu.Lock()
	s.closedCh = true
	a.W.mu.Unlock()
}

// CtxErrDuringStream returns the points at which a stream handler found its ctx done.
func (w *World) CtxErrDuringStream(tok string) []string {
	w.mu.Lock()
	defer w.mu.Unlock()
	return append([]string{}, w.st(tok).ctxErrAt...)
}

// TokClient is the client-side proxy struct.
type TokClient struct {
	// RetryEarly: a retry-tagged function for the same remote method and with the same signature as Call, declared before
	// it (what one field is tagged with must not rub off on another)
	RetryEarly func(ctx context.Context, tok string, plan Plan) (Result, error) `retry:"true" rpc_method:"Tok.Call"`
	Call       func(ctx context.Context, tok string, plan Plan) (Result, error)
	// CallRF carries the retry tag with a value other than "true": an ordinary call
	CallRF   func(ctx context.Context, tok string, plan Plan) (Result, error) `retry:"false" rpc_method:"Tok.Call"`
	Notify   func(ctx context.Context, tok string, plan Plan) error           `notify:"true"`
	Retry    func(ctx context.Context, tok string, plan Plan) (Result, error) `retry:"true" rpc_method:"Tok.Call"`
	Sub      func(ctx context.Context, tok string, plan Plan) (<-chan Item, error)
	SubInt   func(ctx context.Context, tok string, plan Plan) (<-chan int64, error)
	SubStr   func(ctx context.Context, tok string, plan Plan) (<-chan string, error)
	SubFloat func(ctx context.Context, tok string, plan Plan) (<-chan float64, error)
	SubRich  func(ctx context.Context, tok string, plan Plan) (<-chan Rich, error)
	SubBare  func(ctx context.Context, tok string, plan Plan) <-chan Item
	// SubAlias reaches Tok.Sub through a server-side alias
	SubAlias func(ctx context.Context, tok string, plan Plan) (<-chan Item, error) `rpc_method:"Tok.SubVia"`
	// NotifySub sends a notification to the channel-returning method
	NotifySub func(ctx context.Context, tok string, plan Plan) error `notify:"true" rpc_method:"Tok.Sub"`
	// Mismatch is declared as a subscription here, but the server method behind it returns a string: the response
	// cannot be turned into a channel, the call stays in flight
	Mismatch func(ctx context.Context, tok string, plan Plan) (<-chan Item, error) `rpc_method:"Tok.NotAChan"`
	NoCtx    func(tok string, plan Plan) (Result, error)                           `rpc_method:"Tok.Call"`
	// RawBad hands the library raw params; called with bytes that are not JSON, the request cannot be written although the
	// connection is fine (the frame encoder refuses it), and the call stays in flight until the connection or the client goes
	RawBad func(ctx context.Context, p jsonrpc.RawParams) (Result, error) `rpc_method:"Tok.Call"`
	// RetryNoCtx: retry-tagged and without a context parameter
	RetryNoCtx func(tok string, plan Plan) (Result, error) `retry:"true" rpc_method:"Tok.Call"`
}

// OpenSub subscribes through Sub, or through SubBare when the plan says so (a client function without an error
// result has no way of reporting a failure except by panicking: that is turned into an error here).
func (c *TokClient) OpenSub(ctx context.Context, tok string, plan Plan) (ch <-chan Item, err error) {
	if plan.ViaAlias && c.SubAlias != nil {
		return c.SubAlias(ctx, tok, plan)
	}
	if !plan.Bare {
		return c.Sub(ctx, tok, plan)
	}
	defer func() {
		if x := recover(); x != nil {
			ch, err = nil, fmt.Errorf("bare subscription failed: %v", x)
		}
	}()
	return c.SubBare(ctx, tok, plan), nil
}

// RevHandler is the client-side handler reverse calls land on.
type RevHandler struct {
	ID   string
	W    *World
	Gate chan struct{} // if non-nil, Slow blocks on it
}

func (h *RevHandler) Ident(ctx context.Context, tok string) (string, error) {
	return h.ID + "/" + tok, nil
}

func (h *RevHandler) Aliased(ctx context.Context, tok string) (string, error) {
	return h.ID + "/alias/" + tok, nil
}

// consumeRevStream reads a client-served stream to its close and summarises what arrived.
func consumeRevStream(ctx context.Context, rc RevClient, tok string, n, pad int) string {
	ch, err := rc.Stream(ctx, tok, n, pad)
	if err != nil {
		return "!stream-err:" + err.Error()
	}
	next := 0
	for {
		select {
		case v, ok := <-ch:
			if !ok {
				if next != n {
					return fmt.Sprintf("!stream-closed-after-%d-of-%d", next, n)
				}
				return fmt.Sprintf("stream-ok:%d", n)
			}
			if v.Tok != tok || v.Seq != next || v.Pad != revStreamPad(tok, v.Seq, pad) {
				return fmt.Sprintf("!stream-got-%s/%d(pad %d)-expected-seq-%d", v.Tok, v.Seq, len(v.Pad), next)
			}
			next++
		case <-time.After(5 * time.Second):
			return fmt.Sprintf("!stream-stalled-after-%d-of-%d", next, n)
		}
	}
}

// revStreamPad: odd elements carry the padding, even ones are small.
func revStreamPad(tok string, seq, pad int) string {
	if seq%2 == 1 {
		return padFor(tok, pad)
	}
	return ""
}

// Stream serves a reverse-direction subscription: n elements carrying (tok, seq).
func (h *RevHandler) Stream(ctx context.Context, tok string, n int, pad int) (<-chan Item, error) {
	ch := make(chan Item)
	go func() {
		defer close(ch)
		for i := 0; i < n; i++ {
			select {
			case ch <- Item{Tok: tok, Seq: i, Pad: revStreamPad(tok, i, pad)}:
			case <-ctx.Done():
				return
			}
		}
	}()
	return ch, nil
}

// Sticky serves a reverse-direction subscription whose producer does not look at its context: it sends element 0, waits
// until the harness releases the gate "revstream:<tok>" (at most 8 s) and then sends the rest and closes, whether or not
// the connection it was subscribed on still exists.
func (h *RevHandler) Sticky(ctx context.Context, tok string, n int) (<-chan Item, error) {
	ch := make(chan Item)
	h.W.mu.Lock()
	gate := h.W.st("revstream:" + tok).gate
	h.W.mu.Unlock()
	go func() {
		defer close(ch)
		select {
		case ch <- Item{Tok: tok, Seq: 0}:
		case <-time.After(8 * time.Second):
			return
		}
		select {
		case <-gate:
		case <-time.After(8 * time.Second):
		}
		for i := 1; i < n; i++ {
			select {
			case ch <- Item{Tok: tok, Seq: i}:
			case <-time.After(2 * time.Second):
				return
			}
		}
	}()
	return ch, nil
}

// consumeRevSticky reads a Sticky stream to its close; the first element is noted in the world as "sticky-first".
func consumeRevSticky(ctx context.Context, w *World, rc RevClient, tok string, n int) string {
	ch, err := rc.Sticky(ctx, tok, n)
	if err != nil {
		return "!stream-err:" + err.Error()
	}
	next := 0
	for {
		select {
		case v, ok := <-ch:
			if !ok {
				if next != n {
					return fmt.Sprintf("!stream-closed-after-%d-of-%d", next, n)
				}
				return fmt.Sprintf("stream-ok:%d", n)
			}
			if v.Tok != tok || v.Seq != next {
				return fmt.Sprintf("!stream-got-%s/%d-expected-%s/%d", v.Tok, v.Seq, tok, next)
			}
			if next == 0 {
				w.Note(tok, "sticky-first")
			}
			next++
		case <-time.After(12 * time.Second):
			return fmt.Sprintf("!stream-stalled-after-%d-of-%d", next, n)
		}
	}
}

// RevHandler2 is a second, independent client-side handler (namespace Rev2).
type RevHandler2 struct{ ID string }

func (h *RevHandler2) Other(ctx context.Context, tok string) (string, error) {
	return h.ID + "/other/" + tok, nil
}

// Event is the target of reverse notifications.
func (h *RevHandler) Event(ctx context.Context, tok string) error { return nil }

// Boom panics inside a client-side handler.
func (h *RevHandler) Boom(ctx context.Context, tok string) (string, error) {
	panic("client-side boom " + tok)
}

func (h *RevHandler) Slow(ctx context.Context, tok string) (string, error) {
	if h.Gate != nil {
		select {
		case <-h.Gate:
		case <-ctx.Done():
			return "", ctx.Err()
		}
	}
	return h.ID + "/slow/" + tok, nil
}
