package harness

// BasicAPI: a small handler set with per-method invocation counters, used by the
// wire-level properties (C09, C10) where requests are hand-made JSON.

import (
	"context"
	"encoding/json"
	"errors"
	"fmt"
	"sync"

	jsonrpc "github.com/filecoin-project/go-jsonrpc"
)

type BasicObj struct {
	A int    `json:"a"`
	B string `json:"b"`
	C []int  `json:"c"`
}

type BasicAPI struct {
	mu    sync.Mutex
	calls map[string]int
}

func NewBasicAPI() *BasicAPI { return &BasicAPI{calls: map[string]int{}} }

func (b *BasicAPI) hit(m string) {
	b.mu.Lock()
	b.calls[m]++
	b.mu.Unlock()
}

// Snapshot returns and resets the counters.
func (b *BasicAPI) Snapshot() map[string]int {
	b.mu.Lock()
	defer b.mu.Unlock()
	out := b.calls
	b.calls = map[string]int{}
	return out
}

func (b *BasicAPI) Peek(m string) int {
	b.mu.Lock()
	defer b.mu.Unlock()
	return b.calls[m]
}

func (b *BasicAPI) Add(a, c int) int { b.hit("Add"); return a + c }
func (b *BasicAPI) Echo(s string) (string, error) {
	b.hit("Echo")
	return s, nil
}
func (b *BasicAPI) Fail(code int) error {
	b.hit("Fail")
	return errors.New(fmt.Sprintf("fail-%d", code))
}
func (b *BasicAPI) Both(x int) (int, error) {
	b.hit("Both")
	return x, errors.New("both")
}
func (b *BasicAPI) Nop()       { b.hit("Nop") }
func (b *BasicAPI) Null() *int { b.hit("Null"); return nil }
func (b *BasicAPI) Ctx(ctx context.Context, x int) (int, error) {
	b.hit("Ctx")
	return x + 1, nil
}
func (b *BasicAPI) Obj(o BasicObj) (BasicObj, error) { b.hit("Obj"); return o, nil }
func (b *BasicAPI) Raw(ctx context.Context, p jsonrpc.RawParams) (string, error) {
	b.hit("Raw")
	return string(p), nil
}

// basicSig describes, for the reference model, what each method accepts and returns.
type basicSig struct {
	name   string
	params []string // "int", "string", "obj"
	raw    bool
}

var basicSigs = map[string]basicSig{
	"Add":  {name: "Add", params: []string{"int", "int"}},
	"Echo": {name: "Echo", params: []string{"string"}},
	"Fail": {name: "Fail", params: []string{"int"}},
	"Both": {name: "Both", params: []string{"int"}},
	"Nop":  {name: "Nop"},
	"Null": {name: "Null"},
	"Ctx":  {name: "Ctx", params: []string{"int"}},
	"Obj":  {name: "Obj", params: []string{"obj"}},
	"Raw":  {name: "Raw", raw: true},
}

var basicMethodNames = []string{"Add", "Echo", "Fail", "Both", "Nop", "Null", "Ctx", "Obj", "Raw"}

// basicDecodes reports whether raw decodes into the declared parameter type, as
// judged by encoding/json itself (the property's own criterion).
func basicDecodes(kind string, raw json.RawMessage) (interface{}, bool) {
	switch kind {
	case "int":
		var v int
		if json.Unmarshal(raw, &v) != nil {
			return nil, false
		}
		return v, true
	case "string":
		var v string
		if json.Unmarshal(raw, &v) != nil {
			return nil, false
		}
		return v, true
	case "obj":
		var v BasicObj
		if json.Unmarshal(raw, &v) != nil {
			return nil, false
		}
		return v, true
	}
	return nil, false
}

// basicExpected computes the model outcome of a well-formed call: either the
// JSON of the result or the error message the handler returns.
func basicExpected(method string, args []interface{}, rawParams json.RawMessage) (result json.RawMessage, errMsg string, isErr bool) {
	m := func(v interface{}) json.RawMessage { b, _ := json.Marshal(v); return b }
	switch method {
	case "Add":
		return m(args[0].(int) + args[1].(int)), "", false
	case "Echo":
		return m(args[0].(string)), "", false
	case "Fail":
		return nil, fmt.Sprintf("fail-%d", args[0].(int)), true
	case "Both":
		return nil, "both", true
	case "Nop", "Null":
		return json.RawMessage("null"), "", false
	case "Ctx":
		return m(args[0].(int) + 1), "", false
	case "Obj":
		return m(args[0].(BasicObj)), "", false
	case "Raw":
		return m(string(rawParams)), "", false
	}
	return nil, "", false
}
