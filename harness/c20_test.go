package harness

// C20 - reader parameters stream byte-exact and honour the io.Reader contract.
//
// Generator: payload length (edge lengths around buffer sizes) and content
// (seeded PRNG, token-prefixed), handler read pattern, forced arrival order of
// the side-channel upload and the RPC request, 1-6 concurrent calls, RPC
// transport {ws, http}. Oracle: bytes seen == bytes sent (length + SHA-256),
// (0, io.EOF) on every read after the first EOF, upload request completes once
// the stream is consumed, no cross-talk (token prefix).

import (
	"bytes"
	"context"
	"crypto/sha256"
	"encoding/hex"
	"encoding/json"
	"fmt"
	"io"
	"net"
	"net/http"
	"net/http/httptest"
	"path"
	"regexp"
	"strings"
	"sync"
	"sync/atomic"
	"testing"
	"testing/iotest"
	"time"

	jsonrpc "github.com/filecoin-project/go-jsonrpc"
	"github.com/filecoin-project/go-jsonrpc/httpio"
	"github.com/gorilla/mux"
	"pgregory.net/rapid"
)

type ReadPlan struct {
	Pattern  string `json:"pattern"` // readall | bytewise | chunked | pasteof | closeafter | closeearly
	Chunk    int    `json:"chunk,omitempty"`
	CloseAt  int    `json:"close_at,omitempty"` // closeearly: bytes to read before Close
	PostEOFs int    `json:"post_eofs,omitempty"`
	// ZeroProbe: the handler issues zero-length reads (a probe before the first read and one after every chunk), as
	// length-prefixed decoders and "is there a reader at all" probes do; they must not affect what the real reads see
	ZeroProbe bool `json:"zero_probe,omitempty"`
}

type ReadResult struct {
	Len      int      `json:"len"`
	SHA      string   `json:"sha"`
	Prefix   string   `json:"prefix"`
	PostEOF  []string `json:"post_eof"` // "n=<n> err=<err>" for every read after the first EOF
	CloseErr string   `json:"close_err"`
	ReadErr  string   `json:"read_err"`
	IsCloser bool     `json:"is_closer"`
}

type ReaderAPI struct{}

func (ReaderAPI) Consume(ctx context.Context, tok string, plan ReadPlan, r io.Reader) (ReadResult, error) {
	var res ReadResult
	h := sha256.New()
	var prefix []byte
	sink := func(b []byte) {
		h.Write(b)
		res.Len += len(b)
		if len(prefix) < 16 {
			n := 16 - len(prefix)
			if n > len(b) {
				n = len(b)
			}
			prefix = append(prefix, b[:n]...)
		}
	}
	chunk := plan.Chunk
	switch plan.Pattern {
	case "bytewise":
		chunk = 1
	case "readall", "pasteof", "closeafter":
		if chunk <= 0 {
			chunk = 32 * 1024
		}
	}
	if chunk <= 0 {
		chunk = 4096
	}
	buf := make([]byte, chunk)
	limit := -1
	if plan.Pattern == "closeearly" {
		limit = plan.CloseAt
	}
	sawEOF := false
	if plan.ZeroProbe {
		r.Read(buf[:0])
		r.Read(nil)
	}
	for limit < 0 || res.Len < limit {
		want := buf
		if limit >= 0 && limit-res.Len < len(want) {
			want = want[:limit-res.Len]
		}
		n, err := r.Read(want)
		sink(want[:n])
		if err == io.EOF {
			sawEOF = true
			break
		}
		if plan.ZeroProbe && err == nil {
			r.Read(buf[:0])
		}
		if err != nil {
			res.ReadErr = err.Error()
			break
		}
	}
	if sawEOF {
		for i := 0; i < plan.PostEOFs; i++ {
			n, err := r.Read(buf)
			res.PostEOF = append(res.PostEOF, fmt.Sprintf("n=%d err=%v", n, err))
		}
	}
	c, ok := r.(io.Closer)
	res.IsCloser = ok
	if ok && (plan.Pattern == "closeafter" || plan.Pattern == "closeearly") {
		if err := c.Close(); err != nil {
			res.CloseErr = err.Error()
		}
		if plan.Pattern == "closeafter" && sawEOF {
			for i := 0; i < plan.PostEOFs; i++ {
				n, err := r.Read(buf)
				res.PostEOF = append(res.PostEOF, fmt.Sprintf("after-close n=%d err=%v", n, err))
			}
		}
	}
	res.SHA = hex.EncodeToString(h.Sum(nil))
	res.Prefix = string(prefix)
	return res, nil
}

type c20Env struct {
	srv *httptest.Server
	mu  sync.Mutex

	evMu         sync.Mutex
	uploadDelay  time.Duration
	requestDelay time.Duration
	uploadsIn    int
	rpcIn        int
	uploadsDone  int
	uploadStatus []int
	uploadAt     map[string]time.Time
	rpcAt        map[string]time.Time
	alignOn      bool
	skewUs       int
	barrier      map[string]chan struct{}

	wsClient    c20Client
	httpClient  c20Client
	slashClient c20Client // ws client configured with the push address spelled with a trailing slash
	cutClient   c20Client // ws client whose uploads travel through cut
	cut         *cutProxy
	closers     []func()
}

// cutProxy is a plain TCP forwarder in front of the upload endpoint. Once armed with n > 0, the next connection
// (new or kept alive) that carries client bytes is reset after n more of them; every other connection is piped
// through untouched.
type cutProxy struct {
	ln     net.Listener
	target string
	armed  int64
	cuts   int64
	conns  int64
}

func newCutProxy(target string) (*cutProxy, error) {
	ln, err := net.Listen("tcp", "127.0.0.1:0")
	if err != nil {
		return nil, err
	}
	p := &cutProxy{ln: ln, target: target}
	go func() {
		for {
			c, err := ln.Accept()
			if err != nil {
				return
			}
			atomic.AddInt64(&p.conns, 1)
			go p.serve(c)
		}
	}()
	return p, nil
}

func (p *cutProxy) serve(c net.Conn) {
	s, err := net.Dial("tcp", p.target)
	if err != nil {
		c.Close()
		return
	}
	reset := func() {
		for _, x := range []net.Conn{c, s} {
			if tc, ok := x.(*net.TCPConn); ok {
				tc.SetLinger(0)
			}
			x.Close()
		}
	}
	go func() {
		io.Copy(c, s)
		c.Close()
	}()
	buf := make([]byte, 16*1024)
	left := int64(-1)
	for {
		n, err := c.Read(buf)
		if n > 0 {
			if left < 0 {
				if a := atomic.SwapInt64(&p.armed, 0); a > 0 {
					left = a
				}
			}
			if left >= 0 {
				if int64(n) >= left {
					s.Write(buf[:left])
					atomic.AddInt64(&p.cuts, 1)
					reset()
					return
				}
				left -= int64(n)
			}
			if _, werr := s.Write(buf[:n]); werr != nil {
				reset()
				return
			}
		}
		if err != nil {
			s.Close()
			c.Close()
			return
		}
	}
}

type c20Client struct {
	Consume func(ctx context.Context, tok string, plan ReadPlan, r io.Reader) (ReadResult, error)
}

var uuidRe = regexp.MustCompile(`[0-9a-f]{8}-[0-9a-f]{4}-[0-9a-f]{4}-[0-9a-f]{4}-[0-9a-f]{12}`)

type statusRecorder struct {
	http.ResponseWriter
	code int
}

func (s *statusRecorder) WriteHeader(c int) { s.code = c; s.ResponseWriter.WriteHeader(c) }

type delayRT struct {
	env  *c20Env
	base http.RoundTripper
}

func (d delayRT) RoundTrip(r *http.Request) (*http.Response, error) {
	d.env.evMu.Lock()
	dl := d.env.requestDelay
	d.env.evMu.Unlock()
	if dl > 0 {
		time.Sleep(dl)
	}
	return d.base.RoundTrip(r)
}

// align makes the upload and the RPC request of one stream id proceed at the same instant: the first to arrive
// waits (at most 50 ms) for the second.
func (e *c20Env) align(id string) {
	e.evMu.Lock()
	if !e.alignOn || id == "" {
		e.evMu.Unlock()
		return
	}
	if ch, ok := e.barrier[id]; ok {
		delete(e.barrier, id)
		e.evMu.Unlock()
		close(ch)
		return
	}
	ch := make(chan struct{})
	e.barrier[id] = ch
	e.evMu.Unlock()
	select {
	case <-ch:
	case <-time.After(50 * time.Millisecond):
	}
}

func newC20Env() (*c20Env, error) {
	e := &c20Env{uploadAt: map[string]time.Time{}, rpcAt: map[string]time.Time{}, barrier: map[string]chan struct{}{}}
	readerHandler, readerOpt := httpio.ReaderParamDecoder()
	rpc := jsonrpc.NewServer(readerOpt)
	rpc.Register("R", ReaderAPI{})
	m := mux.NewRouter()
	m.HandleFunc("/rpc/v0", func(w http.ResponseWriter, r *http.Request) {
		if !strings.Contains(strings.ToLower(r.Header.Get("Connection")), "upgrade") {
			body, _ := io.ReadAll(r.Body)
			if id := uuidRe.FindString(string(body)); id != "" {
				e.evMu.Lock()
				e.rpcAt[id] = time.Now()
				e.rpcIn++
				e.evMu.Unlock()
			}
			r.Body = io.NopCloser(strings.NewReader(string(body)))
			e.align(uuidRe.FindString(string(body)))
		}
		rpc.ServeHTTP(w, r)
	})
	m.HandleFunc("/rpc/streams/v0/push/{uuid}", func(w http.ResponseWriter, r *http.Request) {
		e.evMu.Lock()
		e.uploadsIn++
		d := e.uploadDelay
		e.evMu.Unlock()
		if d > 0 {
			time.Sleep(d)
		}
		e.evMu.Lock()
		e.uploadAt[path.Base(r.URL.Path)] = time.Now()
		e.evMu.Unlock()
		e.align(path.Base(r.URL.Path))
		e.evMu.Lock()
		skew := time.Duration(e.skewUs) * time.Microsecond
		on := e.alignOn
		e.evMu.Unlock()
		if on && skew > 0 {
			// the RPC side still has to parse the request before it reaches the rendezvous table: scan that offset
			for t0 := time.Now(); time.Since(t0) < skew; {
			}
		}
		sr := &statusRecorder{ResponseWriter: w, code: 200}
		readerHandler(sr, r)
		e.evMu.Lock()
		e.uploadsDone++
		e.uploadStatus = append(e.uploadStatus, sr.code)
		e.evMu.Unlock()
	})
	e.srv = httptest.NewServer(m)
	addr := e.srv.Listener.Addr().String()
	enc := httpio.ReaderParamEncoder("http://" + addr + "/rpc/streams/v0/push")
	c1, err := jsonrpc.NewMergeClient(context.Background(), "ws://"+addr+"/rpc/v0", "R", []interface{}{&e.wsClient}, nil, enc)
	if err != nil {
		return nil, err
	}
	hc := &http.Client{Transport: delayRT{env: e, base: &http.Transport{MaxIdleConnsPerHost: 16}}}
	c2, err := jsonrpc.NewMergeClient(context.Background(), "http://"+addr+"/rpc/v0", "R", []interface{}{&e.httpClient}, nil, enc, jsonrpc.WithHTTPClient(hc))
	if err != nil {
		return nil, err
	}
	encSlash := httpio.ReaderParamEncoder("http://" + addr + "/rpc/streams/v0/push/")
	c4, err := jsonrpc.NewMergeClient(context.Background(), "ws://"+addr+"/rpc/v0", "R", []interface{}{&e.slashClient}, nil, encSlash)
	if err != nil {
		return nil, err
	}
	e.cut, err = newCutProxy(addr)
	if err != nil {
		return nil, err
	}
	encCut := httpio.ReaderParamEncoder("http://" + e.cut.ln.Addr().String() + "/rpc/streams/v0/push")
	c3, err := jsonrpc.NewMergeClient(context.Background(), "ws://"+addr+"/rpc/v0", "R", []interface{}{&e.cutClient}, nil, encCut)
	if err != nil {
		return nil, err
	}
	e.closers = []func(){c1, c2, c3, c4, func() { e.cut.ln.Close() }}
	return e, nil
}

func (e *c20Env) Close() { bounded(5*time.Second, e.closeInner) }

func (e *c20Env) closeInner() {
	for _, c := range e.closers {
		c()
	}
	closeTestServer(e.srv)
}

type c20Call struct {
	Len  int      `json:"len"`
	Seed uint64   `json:"seed"`
	Plan ReadPlan `json:"plan"`
	// the caller's reader: "" = fresh *strings.Reader; bytes = *bytes.Reader; section = *io.SectionReader; opaque = a
	// reader exposing nothing but Read (length unknown to net/http); dataeof = one that returns its last bytes together with
	// io.EOF; half = one that makes short reads. Skip bytes have already been consumed from it
	// (by reading, or by seeking when SkipBySeek) before it is passed: the caller's byte sequence is what remains.
	Reader     string `json:"reader,omitempty"`
	Skip       int    `json:"skip,omitempty"`
	SkipBySeek bool   `json:"skip_by_seek,omitempty"`
}

type onlyReader struct{ r io.Reader }

func (o onlyReader) Read(p []byte) (int, error) { return o.r.Read(p) }

// callerReader builds the reader described by the call and returns it with the bytes the handler must see.
func (call c20Call) callerReader(payload []byte) (io.Reader, []byte) {
	skip := call.Skip
	if skip > len(payload) {
		skip = len(payload)
	}
	if skip < 0 {
		skip = 0
	}
	var rs io.ReadSeeker
	switch call.Reader {
	case "bytes":
		rs = bytes.NewReader(payload)
	case "section":
		rs = io.NewSectionReader(bytes.NewReader(payload), 0, int64(len(payload)))
	default:
		rs = strings.NewReader(string(payload))
	}
	if skip > 0 {
		if call.SkipBySeek {
			rs.Seek(int64(skip), io.SeekStart)
		} else {
			io.CopyN(io.Discard, rs, int64(skip))
		}
	}
	switch call.Reader {
	case "opaque":
		return onlyReader{rs}, payload[skip:]
	case "dataeof":
		// hands out its last bytes together with io.EOF, as the io.Reader contract allows
		return iotest.DataErrReader(onlyReader{rs}), payload[skip:]
	case "half":
		// short reads: never fills more than half of the buffer it is given
		return iotest.HalfReader(onlyReader{rs}), payload[skip:]
	}
	return rs, payload[skip:]
}

type c20Case struct {
	Transport string    `json:"transport"` // ws | http
	Order     string    `json:"order"`     // natural | request_first | upload_first | aligned (both released at the same instant; http only)
	Calls     []c20Call `json:"calls"`
	SkewUs    int       `json:"skew_us,omitempty"` // aligned order: the upload side proceeds this many microseconds after the release
	// UploadCut > 0 (ws transport, one call): the connection carrying the upload is reset after that many bytes
	// (request head included); later connections to the upload endpoint work again.
	UploadCut int `json:"upload_cut,omitempty"`
	// Abandon (ws): before the calls, one reader-carrying call is given up by its caller (its context ends) while its
	// upload is still on the way; the upload arrives after that. The calls proper must be unaffected.
	Abandon bool `json:"abandon,omitempty"`
	// PushSlash (ws): the client was configured with the push address spelled with a trailing slash
	PushSlash bool `json:"push_slash,omitempty"`
}

func c20Payload(tok string, n int, seed uint64) []byte {
	b := make([]byte, n)
	x := seed | 1
	for i := range b {
		x ^= x << 13
		x ^= x >> 7
		x ^= x << 17
		b[i] = byte(x >> 24)
	}
	copy(b, tok) // token prefix (as much of it as fits)
	return b
}

func (e *c20Env) run(c c20Case) *Violation {
	e.mu.Lock()
	defer e.mu.Unlock()
	e.evMu.Lock()
	e.uploadDelay, e.requestDelay = 0, 0
	e.alignOn = c.Order == "aligned"
	e.skewUs = c.SkewUs
	switch c.Order {
	case "request_first":
		e.uploadDelay = 25 * time.Millisecond
	case "upload_first":
		e.requestDelay = 25 * time.Millisecond
	}
	e.uploadsIn, e.rpcIn, e.uploadsDone, e.uploadStatus = 0, 0, 0, nil
	e.evMu.Unlock()

	cl := e.wsClient
	if c.Transport == "http" {
		cl = e.httpClient
	}
	if c.UploadCut > 0 {
		return e.runUploadCut(c)
	}
	if c.PushSlash {
		cl = e.slashClient
	}
	if c.Abandon {
		e.evMu.Lock()
		e.uploadDelay = 300 * time.Millisecond
		e.evMu.Unlock()
		actx, acancel := context.WithTimeout(context.Background(), 100*time.Millisecond)
		adone := make(chan struct{})
		go func() {
			defer close(adone)
			e.wsClient.Consume(actx, "tok-abandoned|", ReadPlan{Pattern: "readall"}, strings.NewReader("tok-abandoned|payload"))
		}()
		select {
		case <-adone:
		case <-time.After(3 * time.Second):
		}
		acancel()
		time.Sleep(450 * time.Millisecond) // the upload of the abandoned call has reached the server by now
		e.evMu.Lock()
		e.uploadDelay = 0
		e.uploadsIn, e.rpcIn, e.uploadsDone, e.uploadStatus = 0, 0, 0, nil
		e.evMu.Unlock()
	}
	type out struct {
		res ReadResult
		err error
	}
	outs := make([]out, len(c.Calls))
	var wg sync.WaitGroup
	for i, call := range c.Calls {
		wg.Add(1)
		go func(i int, call c20Call) {
			defer wg.Done()
			tok := fmt.Sprintf("tok-%02d-%08x|", i, call.Seed&0xffffffff)
			payload := c20Payload(tok, call.Len, call.Seed)
			ctx, cancel := context.WithTimeout(context.Background(), 4*time.Second)
			defer cancel()
			rd, _ := call.callerReader(payload)
			r, err := cl.Consume(ctx, tok, call.Plan, rd)
			outs[i] = out{r, err}
		}(i, call)
	}
	// (over WebSocket a call does not return on its context alone: it waits for the server's answer to the cancel)
	if !bounded(9*time.Second, wg.Wait) {
		return violf("call-hangs", "reader-carrying calls (each with a 4 s context) had not all returned after 9 s: transport %s, order %s, %d calls, abandon=%v", c.Transport, c.Order, len(c.Calls), c.Abandon)
	}
	for i, call := range c.Calls {
		o := outs[i]
		tok := fmt.Sprintf("tok-%02d-%08x|", i, call.Seed&0xffffffff)
		_, payload := call.callerReader(c20Payload(tok, call.Len, call.Seed))
		if o.err != nil {
			key := "call-failed"
			if strings.Contains(o.err.Error(), "close of closed channel") {
				key = "read-past-eof-panic"
			}
			e.evMu.Lock()
			in, rin, done := e.uploadsIn, e.rpcIn, e.uploadsDone
			e.evMu.Unlock()
			if c.Transport == "http" && in >= len(c.Calls) && rin >= len(c.Calls) && done < in {
				// both the upload and the request reached the server (seconds ago), yet they never met: no bound involved
				key = "rendezvous-missed"
			}
			return violf(key, "call %d (len %d, plan %+v) failed: %v", i, call.Len, call.Plan, o.err)
		}
		want := payload
		if call.Plan.Pattern == "closeearly" && call.Plan.CloseAt < len(want) {
			want = want[:call.Plan.CloseAt]
		}
		sum := sha256.Sum256(want)
		if o.res.Len != len(want) || o.res.SHA != hex.EncodeToString(sum[:]) {
			key := "bytes-differ"
			wp := string(want)
			if len(wp) > 16 {
				wp = wp[:16]
			}
			if o.res.Prefix != wp && strings.HasPrefix(o.res.Prefix, "tok-") {
				key = "streams-mixed"
			}
			return violf(key, "call %d: handler saw %d bytes (sha %s, prefix %q), sent %d bytes (prefix %q); read error %q", i, o.res.Len, o.res.SHA[:12], o.res.Prefix, len(want), wp, o.res.ReadErr)
		}
		if o.res.ReadErr != "" {
			return violf("read-error", "call %d: read failed with %q", i, o.res.ReadErr)
		}
		for _, pe := range o.res.PostEOF {
			if strings.HasPrefix(pe, "after-close") {
				continue // reads after an explicit Close are outside the io.Reader contract the statement refers to
			}
			if pe != "n=0 err=EOF" {
				return violf("eof-not-sticky", "call %d (plan %+v): read after the first EOF returned %s, expected n=0 err=EOF (all: %v)", i, call.Plan, pe, o.res.PostEOF)
			}
		}
		if !o.res.IsCloser && (call.Plan.Pattern == "closeafter" || call.Plan.Pattern == "closeearly") {
			return violf("not-a-closer", "the handler's reader does not implement io.Closer")
		}
	}
	// every upload request completes once its stream has been consumed
	deadline := time.Now().Add(3 * time.Second)
	for {
		e.evMu.Lock()
		in, done := e.uploadsIn, e.uploadsDone
		st := append([]int{}, e.uploadStatus...)
		e.evMu.Unlock()
		if done >= len(c.Calls) {
			for _, s := range st {
				if s != 200 {
					early := false
					for _, call := range c.Calls {
						if call.Plan.Pattern == "closeearly" {
							early = true
						}
					}
					if !early {
						return violf("upload-status", "upload request answered with status %d after the stream was consumed (all: %v)", s, st)
					}
				}
			}
			return nil
		}
		if time.Now().After(deadline) {
			return violf("upload-not-completed", "%d calls returned but only %d of %d upload requests completed within 3s", len(c.Calls), done, in)
		}
		time.Sleep(2 * time.Millisecond)
	}
}

// runUploadCut: the side-channel upload loses its connection part-way. Nothing obliges the call to succeed then, but
// a handler that is handed a stream ending in a clean end-of-file must have seen exactly the caller's bytes.
func (e *c20Env) runUploadCut(c c20Case) *Violation {
	call := c.Calls[0]
	tok := fmt.Sprintf("tok-%02d-%08x|", 0, call.Seed&0xffffffff)
	rd, want := call.callerReader(c20Payload(tok, call.Len, call.Seed))
	cutsBefore := atomic.LoadInt64(&e.cut.cuts)
	atomic.StoreInt64(&e.cut.armed, int64(c.UploadCut))
	defer atomic.StoreInt64(&e.cut.armed, 0)
	ctx, cancel := context.WithTimeout(context.Background(), 1500*time.Millisecond)
	defer cancel()
	res, err := e.cutClient.Consume(ctx, tok, ReadPlan{Pattern: "readall"}, rd)
	if atomic.LoadInt64(&e.cut.cuts) == cutsBefore {
		// the upload was shorter than the cut position: an ordinary call
		if err != nil {
			return violf("call-failed", "call with an uncut upload of %d bytes failed: %v", len(want), err)
		}
	}
	if err != nil || res.ReadErr != "" {
		return nil
	}
	sum := sha256.Sum256(want)
	if res.Len != len(want) || res.SHA != hex.EncodeToString(sum[:]) {
		return violf("bytes-differ", "the upload connection was reset after %d bytes; the handler was nevertheless handed a stream that ended in a clean EOF after %d bytes (prefix %q), the caller's reader held %d bytes", c.UploadCut, res.Len, res.Prefix, len(want))
	}
	return nil
}

var c20Lens = []int{0, 1, 2, 15, 16, 17, 511, 512, 513, 4095, 4096, 4097, 32767, 32768, 32769, 65536, 100000}

func genC20Call(t *rapid.T, i int, maxLen int) c20Call {
	l := fmt.Sprintf("c%d_", i)
	var n int
	switch rapid.IntRange(0, 9).Draw(t, l+"lenkind") {
	case 0, 1, 2, 3, 4, 5:
		n = rapid.SampledFrom(c20Lens).Draw(t, l+"len")
	case 6, 7:
		n = rapid.IntRange(0, 70000).Draw(t, l+"lenr")
	default:
		n = rapid.IntRange(0, maxLen).Draw(t, l+"lenbig")
	}
	if n > maxLen {
		n = maxLen
	}
	p := ReadPlan{Pattern: rapid.SampledFrom([]string{"readall", "readall", "bytewise", "chunked", "pasteof", "pasteof", "closeafter", "closeearly"}).Draw(t, l+"pattern")}
	switch p.Pattern {
	case "bytewise":
		if n > 5000 {
			n = rapid.IntRange(0, 5000).Draw(t, l+"lensmall")
		}
		p.PostEOFs = rapid.IntRange(0, 2).Draw(t, l+"post")
	case "chunked":
		p.Chunk = rapid.SampledFrom([]int{1, 2, 3, 7, 512, 4096, 4097, 65536}).Draw(t, l+"chunk")
		if p.Chunk < 8 && n > 20000 {
			n = n % 20000
		}
		p.PostEOFs = rapid.IntRange(0, 2).Draw(t, l+"post")
	case "pasteof":
		p.PostEOFs = rapid.IntRange(1, 3).Draw(t, l+"post")
	case "closeafter":
		p.PostEOFs = rapid.IntRange(0, 1).Draw(t, l+"post")
	case "closeearly":
		p.CloseAt = rapid.IntRange(0, n).Draw(t, l+"closeat")
	}
	p.ZeroProbe = rapid.IntRange(0, 4).Draw(t, l+"zeroprobe") == 0
	call := c20Call{Len: n, Seed: rapid.Uint64().Draw(t, l+"seed"), Plan: p}
	call.Reader = rapid.SampledFrom([]string{"", "", "bytes", "section", "opaque", "dataeof", "half"}).Draw(t, l+"reader")
	if n > 0 && rapid.IntRange(0, 3).Draw(t, l+"preconsumed") == 0 {
		call.Skip = rapid.IntRange(1, n).Draw(t, l+"skip")
		call.SkipBySeek = rapid.Bool().Draw(t, l+"seek")
		if p.Pattern == "closeearly" && p.CloseAt > n-call.Skip {
			call.Plan.CloseAt = n - call.Skip
		}
	}
	return call
}

func c20NT(c c20Case) (bool, []string) {
	cl := []string{"tr_" + c.Transport, "order_" + c.Order, fmt.Sprintf("ncalls_%d", len(c.Calls))}
	nt := len(c.Calls) > 1 || c.Order != "natural"
	for _, call := range c.Calls {
		cl = append(cl, "pattern_"+call.Plan.Pattern)
		if call.Len == 0 {
			cl = append(cl, "len_0")
			nt = true
		}
		if call.Len > 32768 {
			cl = append(cl, "len_gt_32k")
			nt = true
		}
		if call.Len > 1<<20 {
			cl = append(cl, "len_gt_1M")
		}
		if call.Plan.Pattern != "readall" {
			nt = true
		}
		if call.Plan.PostEOFs > 0 {
			cl = append(cl, "reads_past_eof")
		}
		if call.Reader != "" {
			cl = append(cl, "reader_"+call.Reader)
		}
		if call.Skip > 0 {
			cl = append(cl, "pre_consumed")
			nt = true
		}
		if call.Plan.ZeroProbe {
			cl = append(cl, "zero_length_reads")
			nt = true
		}
	}
	if c.UploadCut > 0 {
		cl = append(cl, "upload_cut")
		nt = true
	}
	if c.Abandon {
		cl = append(cl, "abandoned_call_then_late_upload")
		nt = true
	}
	if c.PushSlash {
		cl = append(cl, "push_address_with_trailing_slash")
		nt = true
	}
	return nt, cl
}

const c20Rule = "payload length from edge lengths {0,1,2,15..17,511..513,4095..4097,32767..32769,65536,100000} or uniform up to the tier's maximum (256 KiB quick, 4 MiB thorough), seeded pseudo-random content prefixed by the call's token; read pattern {ReadAll, byte-at-a-time, chunked, read past EOF 1-3 times, Close after EOF, Close early}, optionally with zero-length reads interspersed; arrival order {natural, request first (upload delayed 25 ms), upload first (RPC request delayed 25 ms, http transport)}; 1-6 concurrent calls; RPC over ws or http; the caller's reader is a strings/bytes/section reader or one exposing only Read, fresh or with 1..n bytes already consumed by reading or seeking (the handler must then see what remains); a few cases first let a caller abandon a reader-carrying call whose upload arrives only afterwards; a few ws cases reset the connection carrying the upload after 100 B - 500 kB (the call may fail then, but a stream that ends in a clean EOF must be byte-exact). Non-trivial = more than one concurrent call, a forced order, length 0 or > 32 KiB, or any pattern other than ReadAll; distinct by descriptor hash"

func TestC20(t *testing.T) {
	rec := NewRec("C20", c20Rule)
	defer rec.Finish(t)
	rec.RequireClass("push_address_with_trailing_slash", "zero_length_reads", "abandoned_call_then_late_upload", "upload_cut", "pre_consumed", "reader_bytes", "reader_section", "reader_opaque", "reader_dataeof", "reader_half", "order_aligned", "len_0", "len_gt_32k", "reads_past_eof", "pattern_closeafter", "pattern_closeearly", "pattern_bytewise", "order_request_first", "order_upload_first", "ncalls_3", "tr_ws", "tr_http")
	env, err := newC20Env()
	if err != nil {
		t.Fatalf("env: %v", err)
	}
	defer env.Close()
	maxLen := scale(256*1024, 4*1024*1024)
	known := rec.IsKnown("read-past-eof-panic")

	rec.Regress(t, func(raw json.RawMessage) *Violation {
		var c c20Case
		if json.Unmarshal(raw, &c) != nil {
			return nil
		}
		return env.run(c)
	})
	t.Run("grid", func(t *testing.T) {
		for _, tr := range []string{"ws", "http"} {
			for _, order := range []string{"natural", "request_first", "upload_first"} {
				if order == "upload_first" && tr == "ws" {
					continue
				}
				for _, n := range []int{0, 1, 4096, 100000} {
					for _, pat := range []ReadPlan{{Pattern: "readall"}, {Pattern: "pasteof", PostEOFs: 2}, {Pattern: "closeafter", PostEOFs: 1}, {Pattern: "chunked", Chunk: 7, PostEOFs: 1}} {
						if known && (pat.PostEOFs > 0 || pat.Pattern == "closeafter") {
							rec.Excluded()
							continue
						}
						if pat.Chunk == 7 && n > 5000 {
							continue
						}
						c := c20Case{Transport: tr, Order: order, Calls: []c20Call{{Len: n, Seed: uint64(n)*7919 + 13, Plan: pat}}}
						nt, cl := c20NT(c)
						rec.Run(t, c, nt, cl, func() *Violation { return env.runConfirm(c) })
					}
				}
			}
		}
		// the caller's reader: every kind, fresh and partly consumed (by reading or by seeking)
		for _, tr := range []string{"ws", "http"} {
			for _, kind := range []string{"", "bytes", "section", "opaque", "dataeof", "half"} {
				for _, sk := range []struct {
					n, skip int
					seek    bool
				}{{5000, 0, false}, {5000, 1, false}, {5000, 4999, true}, {100000, 70000, false}, {100000, 30000, true}, {17, 17, false}} {
					c := c20Case{Transport: tr, Order: "natural", Calls: []c20Call{{Len: sk.n, Seed: uint64(sk.n + sk.skip), Plan: ReadPlan{Pattern: "readall"}, Reader: kind, Skip: sk.skip, SkipBySeek: sk.seek}}}
					nt, cl := c20NT(c)
					rec.Run(t, c, nt, cl, func() *Violation { return env.runConfirm(c) })
				}
			}
		}
		// zero-length reads interspersed with the real ones
		for _, tr := range []string{"ws", "http"} {
			for _, n := range []int{0, 1, 5000, 100000} {
				for _, pat := range []ReadPlan{{Pattern: "readall", ZeroProbe: true}, {Pattern: "chunked", Chunk: 512, ZeroProbe: true}} {
					c := c20Case{Transport: tr, Order: "natural", Calls: []c20Call{{Len: n, Seed: uint64(n) + 5, Plan: pat, Reader: []string{"", "opaque"}[n%2]}}}
					nt, cl := c20NT(c)
					rec.Run(t, c, nt, cl, func() *Violation { return env.runConfirm(c) })
				}
			}
		}
		// the push address spelled with a trailing slash
		for _, n := range []int{0, 11, 5000, 100000} {
			c := c20Case{Transport: "ws", Order: "natural", PushSlash: true, Calls: []c20Call{{Len: n, Seed: uint64(n) + 9, Plan: ReadPlan{Pattern: "readall"}, Reader: []string{"", "opaque"}[n%2]}}}
			nt, cl := c20NT(c)
			rec.Run(t, c, nt, cl, func() *Violation { return env.runConfirm(c) })
		}
		// a call abandoned by its caller before its upload arrived, then ordinary calls
		for _, tr := range []string{"ws", "http"} {
			c := c20Case{Transport: tr, Order: "natural", Abandon: true, Calls: []c20Call{{Len: 100, Seed: 1, Plan: ReadPlan{Pattern: "readall"}}, {Len: 5000, Seed: 2, Plan: ReadPlan{Pattern: "readall"}}}}
			nt, cl := c20NT(c)
			rec.Run(t, c, nt, cl, func() *Violation { return env.runConfirm(c) })
		}
		// the upload's connection is reset part-way
		for _, uc := range []struct{ n, cut int }{{1 << 20, 64 << 10}, {300000, 20000}, {1 << 20, 500000}, {2000, 100}} {
			for _, kind := range []string{"", "opaque"} {
				if !thorough() && kind == "opaque" && uc.n != 1<<20 {
					continue
				}
				c := c20Case{Transport: "ws", Order: "natural", UploadCut: uc.cut, Calls: []c20Call{{Len: uc.n, Seed: uint64(uc.n + uc.cut), Plan: ReadPlan{Pattern: "readall"}, Reader: kind}}}
				nt, cl := c20NT(c)
				rec.Run(t, c, nt, cl, func() *Violation { return env.runConfirm(c) })
			}
		}
		// aligned arrivals: upload and request of the same stream id hit the rendezvous table at the same instant
		for i := 0; i < scale(900, 5000); i++ {
			c := c20Case{Transport: "http", Order: "aligned", SkewUs: (i * 3) % 150, Calls: []c20Call{{Len: 1 + i%40, Seed: uint64(i)*31 + 7, Plan: ReadPlan{Pattern: "readall"}}}}
			if i%10 == 0 {
				c.Calls = append(c.Calls, c20Call{Len: 3, Seed: uint64(i), Plan: ReadPlan{Pattern: "readall"}}, c20Call{Len: 5000, Seed: uint64(i) + 1, Plan: ReadPlan{Pattern: "readall"}})
			}
			nt, cl := c20NT(c)
			rec.Run(t, c, nt, cl, func() *Violation { return env.runConfirm(c) })
		}
		if thorough() {
			for _, n := range []int{1 << 20, 4 << 20} {
				c := c20Case{Transport: "ws", Order: "natural", Calls: []c20Call{{Len: n, Seed: 99, Plan: ReadPlan{Pattern: "readall"}}, {Len: n / 2, Seed: 98, Plan: ReadPlan{Pattern: "chunked", Chunk: 4097}}}}
				nt, cl := c20NT(c)
				rec.Run(t, c, nt, cl, func() *Violation { return env.runConfirm(c) })
			}
		}
	})

	rec.Rapid(t, "rapid", func(rt *rapid.T) {
		c := c20Case{Transport: rapid.SampledFrom([]string{"ws", "http"}).Draw(rt, "transport")}
		orders := []string{"natural", "natural", "request_first"}
		if c.Transport == "http" {
			orders = append(orders, "upload_first", "aligned", "aligned")
		}
		c.Order = rapid.SampledFrom(orders).Draw(rt, "order")
		if c.Order == "aligned" {
			c.SkewUs = rapid.IntRange(0, 150).Draw(rt, "skew")
		}
		n := rapid.SampledFrom([]int{1, 1, 1, 2, 3, 3, 6}).Draw(rt, "ncalls")
		for i := 0; i < n; i++ {
			call := genC20Call(rt, i, maxLen)
			if known && (call.Plan.PostEOFs > 0 || call.Plan.Pattern == "closeafter") {
				rec.Excluded()
				call.Plan = ReadPlan{Pattern: "readall"}
			}
			c.Calls = append(c.Calls, call)
		}
		nt, cl := c20NT(c)
		rec.Run(rt, c, nt, cl, func() *Violation { return env.runConfirm(c) })
	})
}

// runConfirm re-runs cases whose verdict depends on a bound.
func (e *c20Env) runConfirm(c c20Case) *Violation {
	v := e.run(c)
	if v != nil && (v.Key == "upload-not-completed" || v.Key == "call-failed" || v.Key == "call-hangs") {
		tries := 1
		if c.Order == "aligned" {
			tries = 40 // the confirming run has to hit the same narrow window again
		}
		for i := 0; i < tries; i++ {
			if v2 := e.run(c); v2 != nil {
				return v
			}
		}
		return nil
	}
	return v
}

func TestC20Replay(t *testing.T) {
	env, err := newC20Env()
	if err != nil {
		t.Fatalf("env: %v", err)
	}
	defer env.Close()
	Replay(t, "C20", 5, func(raw json.RawMessage) *Violation {
		var c c20Case
		if err := json.Unmarshal(raw, &c); err != nil {
			return nil
		}
		return env.run(c)
	})
}
