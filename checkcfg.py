# Per-property run configuration for ./check (test names, case counts, shards, time limits).
# index: stable per-property number mixed into the rapid seed.

def P(index, level, quick, thorough, **kw):
    d = dict(index=index, level=level, tests="^TestC%02d$" % index, replay="^TestC%02dReplay$" % index, quick=quick, thorough=thorough)
    d.update(kw)
    return d

PROPS = {
    "C01": P(1, "exploration",
             quick=dict(checks=4000, timeout=600),
             thorough=dict(checks=40000, shards=14, timeout=2400, fuzz=[("FuzzC01", 180)])),
    "C02": P(2, "exploration",
             quick=dict(checks=1200, timeout=900),
             thorough=dict(checks=6000, shards=12, timeout=3000, race=True)),
    "C03": P(3, "fault_enumeration",
             quick=dict(checks=60, timeout=900, shrinktime="15s"),
             thorough=dict(checks=250, shards=12, timeout=3000, shrinktime="30s")),
    "C04": P(4, "fault_enumeration",
             quick=dict(checks=70, timeout=900, shrinktime="15s"),
             thorough=dict(checks=300, shards=12, timeout=3000, shrinktime="30s")),
    "C05": P(5, "fault_enumeration",
             quick=dict(checks=60, timeout=900, shrinktime="15s"),
             thorough=dict(checks=300, shards=12, timeout=3000, shrinktime="30s")),
    "C06": P(6, "exploration",
             quick=dict(checks=200, timeout=900, shrinktime="15s"),
             thorough=dict(checks=1500, shards=10, timeout=3000, race=True)),
    "C09": P(9, "exploration",
             quick=dict(checks=6000, timeout=600),
             thorough=dict(checks=60000, shards=8, timeout=1800, fuzz=[("FuzzC09", 180)])),
    "C10": P(10, "exploration",
             quick=dict(checks=1200, timeout=900, shrinktime="15s"),
             thorough=dict(checks=12000, shards=8, timeout=3000, fuzz=[("FuzzC10Server", 180)])),
    "C11": P(11, "exploration",
             quick=dict(checks=4000, timeout=600),
             thorough=dict(checks=40000, shards=8, timeout=1800)),
    "C12": P(12, "exploration",
             quick=dict(checks=3000, timeout=600),
             thorough=dict(checks=30000, shards=8, timeout=1800)),
    "C13": P(13, "exploration",
             quick=dict(checks=250, timeout=900, shrinktime="15s"),
             thorough=dict(checks=2500, shards=6, timeout=3000)),
    "C19": P(19, "exploration",
             quick=dict(checks=3000, timeout=300),
             thorough=dict(checks=40000, shards=4, timeout=900)),
    "C20": P(20, "exploration",
             quick=dict(checks=300, timeout=600, shrinktime="5s"),
             thorough=dict(checks=1500, shards=8, timeout=2400, shrinktime="10s")),
}
