#!/usr/bin/env python3
"""runall.py [--tier quick|thorough] [--seed N] [-j N] [IDs...]: run every registered check, print one line each."""
import concurrent.futures, json, os, subprocess, sys, time
args = sys.argv[1:]
tier, seed, jobs = "quick", os.environ.get("VERIF_SEED", "1"), 1
while args and args[0].startswith("-"):
    a = args.pop(0)
    if a == "--tier": tier = args.pop(0)
    elif a == "--seed": seed = args.pop(0)
    elif a == "-j": jobs = int(args.pop(0))
ROOT = os.path.dirname(os.path.dirname(os.path.abspath(__file__)))
ids = args or [c["property_id"] for c in json.load(open(os.path.join(ROOT, "MANIFEST.json")))["checks"]]
def one(i):
    t0 = time.time()
    r = subprocess.run(["./check", i, "--tier", tier], cwd=ROOT, env=dict(os.environ, VERIF_SEED=seed), stdout=subprocess.PIPE, stderr=subprocess.STDOUT, text=True)
    last = [l for l in r.stdout.splitlines() if l.startswith(("OK", "VIOLATION", "INCONCLUSIVE", "KNOWN", "#   key"))]
    return "%-4s rc=%d %6.1fs %s" % (i, r.returncode, time.time() - t0, " | ".join(last)[:300])
with concurrent.futures.ThreadPoolExecutor(jobs) as ex:
    for line in ex.map(one, ids):
        print(line, flush=True)
