#!/usr/bin/env python3
"""mkmut.py <PROP> <name> <file-in-repo> <old> <new> [<file2> <old2> <new2> ...]: record a sensitivity mutant as mutants/<PROP>/<name>.diff.
The mutant must compile; it is built (go build + go vet off) in place and reverted."""
import os, subprocess, sys
prop, name = sys.argv[1], sys.argv[2]
trip = sys.argv[3:]
assert len(trip) % 3 == 0 and trip
env = dict(os.environ, GOFLAGS="-mod=mod", GOPROXY="off", GOSUMDB="off", GOTOOLCHAIN="local")
assert subprocess.run(["git", "-C", "/repo", "status", "--porcelain"], stdout=subprocess.PIPE, text=True).stdout.strip() == "", "/repo not clean"
try:
    for i in range(0, len(trip), 3):
        f, old, new = trip[i:i+3]
        p = os.path.join("/repo", f)
        s = open(p).read()
        assert s.count(old) == 1, "pattern must occur exactly once in %s (found %d)" % (f, s.count(old))
        open(p, "w").write(s.replace(old, new))
    r = subprocess.run(["go", "build", "-tags", "verif", "./..."], cwd="/repo", env=env)
    assert r.returncode == 0, "mutant does not compile"
    d = subprocess.run(["git", "-C", "/repo", "diff"], stdout=subprocess.PIPE, text=True).stdout
    os.makedirs("/verif/mutants/%s" % prop, exist_ok=True)
    open("/verif/mutants/%s/%s.diff" % (prop, name), "w").write(d)
    print("wrote mutants/%s/%s.diff" % (prop, name))
finally:
    subprocess.run(["git", "-C", "/repo", "checkout", "--", "."])
