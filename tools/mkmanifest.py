#!/usr/bin/env python3
"""Regenerates MANIFEST.json from checkcfg.py and tools/manifest_text.json."""
import json, os, sys, subprocess
ROOT = os.path.dirname(os.path.dirname(os.path.abspath(__file__)))
sys.path.insert(0, ROOT)
from checkcfg import PROPS
text = json.load(open(os.path.join(ROOT, "tools", "manifest_text.json")))
ids = [json.loads(l)["id"] for l in open(os.path.join(ROOT, "properties.jsonl"))]
hooks_commits = []
try:
    out = subprocess.run(["git", "-C", "/repo", "log", "--format=%H %s"], stdout=subprocess.PIPE, text=True).stdout
    for l in out.splitlines():
        h, s = l.split(" ", 1)
        if s.startswith("verif:") or s.startswith("hooks:"):
            hooks_commits.append(h)
except Exception:
    pass
checks, na = [], []
for i in ids:
    if i in PROPS and i in text["checks"]:
        t = text["checks"][i]
        c = dict(property_id=i, quick_cmd="./check %s --tier quick" % i, thorough_cmd="./check %s --tier thorough" % i,
                 evidence_file="/verif/evidence/%s.json" % i, replay_cmd_template="./check %s --replay {path}" % i,
                 engine="harness", level_claimed=dict(category=PROPS[i]["level"], text=t["text"], design_ref=t.get("design_ref", "DESIGN.md section 5, " + i)),
                 level_note=t["note"], technique=t["technique"])
        checks.append(c)
    else:
        na.append(dict(property_id=i, reason=text.get("not_applicable", {}).get(i, "check not built yet in this round; planned as generated-input check per DESIGN.md section 5")))
m = dict(version=1,
         setup_cmd="cd /verif/harness && cp -n /repo/go.sum go.sum 2>/dev/null; export GOFLAGS=-mod=mod GOPROXY=off GOSUMDB=off GOTOOLCHAIN=local; go test -c -tags verif -vet=off -o /dev/null . && (command -v go1.26.8 >/dev/null && go1.26.8 test -c -race -tags verif -vet=off -o /dev/null . || true)",
         hooks=dict(guard="verif", enable="go build tag: go test -tags verif (the harness module replaces github.com/filecoin-project/go-jsonrpc with /repo)",
                    baseline_off_cmd="cd /repo && GOFLAGS=-mod=mod GOPROXY=off GOSUMDB=off go test -vet=off -count=1 -timeout 25m ./...",
                    source_commits=list(reversed(hooks_commits)), add_only=True),
         engines=[dict(name="harness", path="/verif/harness", serves_properties=[c["property_id"] for c in checks],
                       kind_free_text="Go test module (pgregory.net/rapid v1.3.0 property-based tests, deterministic grid enumerations, native go fuzz targets) compiled against /repo with -tags verif; driven by /verif/check (python3, stdlib only)")],
         checks=checks, not_applicable=na, notes=text.get("notes", ""))
json.dump(m, open(os.path.join(ROOT, "MANIFEST.json"), "w"), indent=1)
print("MANIFEST.json: %d checks, %d not_applicable" % (len(checks), len(na)))
