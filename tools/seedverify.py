#!/usr/bin/env python3
"""seedverify.py <PROP> <src-dir> <seed-id> [--demo-dir <dir-in-repo>] [--needs "<text>"]

Independently confirms a change proposed by a sub-agent and, if it holds up, stores it as /verif/seeded/<seed-id>/:
  1. the patch applies to a fresh scratch worktree of /repo HEAD and builds with and without -tags verif;
  2. the repository's own test suite passes on the patched tree (twice);
  3. the demonstration FAILS on the patched tree;
  4. the demonstration PASSES on the unpatched tree (three runs).
The scratch worktree is removed afterwards."""
import json, os, re, shutil, subprocess, sys, tempfile, time
args = sys.argv[1:]
prop, src, sid = args[0], args[1], args[2]
demo_dir, needs, demo_tags = None, "", []
i = 3
while i < len(args):
    if args[i] == "--demo-dir": demo_dir = args[i + 1]; i += 2
    elif args[i] == "--needs": needs = args[i + 1]; i += 2
    elif args[i] == "--demo-tags": demo_tags = ["-tags", args[i + 1]]; i += 2
    else: i += 1
env = dict(os.environ, GOFLAGS="-mod=mod", GOPROXY="off", GOSUMDB="off", GOTOOLCHAIN="local")
patch = os.path.join(src, "patch.diff")
demos = [f for f in os.listdir(src) if f.endswith("_test.go")]
assert os.path.exists(patch) and demos, "need patch.diff and a *_test.go demonstration in " + src
demo = os.path.join(src, demos[0])
pkg = re.search(r"^package\s+(\w+)", open(demo).read(), re.M).group(1)
if demo_dir is None:
    demo_dir = {"httpio": "httpio", "httpio_test": "httpio", "auth": "auth", "auth_test": "auth"}.get(pkg, ".")
wt = tempfile.mkdtemp(prefix="seedwt-"); os.rmdir(wt)
subprocess.run(["git", "-C", "/repo", "worktree", "add", "--detach", "-q", wt, "HEAD"], check=True)
log = []
def run(cmd, cwd=wt, timeout=900):
    t0 = time.time()
    try:
        r = subprocess.run(cmd, cwd=cwd, env=env, stdout=subprocess.PIPE, stderr=subprocess.STDOUT, text=True, errors="replace", timeout=timeout)
        rc, out = r.returncode, r.stdout
    except subprocess.TimeoutExpired as e:
        rc, out = 124, (e.stdout or "") if isinstance(e.stdout, str) else "timeout"
    log.append(dict(cmd=" ".join(cmd), rc=rc, secs=round(time.time() - t0, 1), tail=out[-600:]))
    return rc, out
ok = True
why = ""
try:
    rc, _ = run(["git", "apply", patch])
    if rc != 0: ok, why = False, "patch does not apply"
    if ok:
        for tags in ([], ["-tags", "verif"]):
            rc, out = run(["go", "build"] + tags + ["./..."])
            if rc != 0: ok, why = False, "does not build " + " ".join(tags)
    touched = subprocess.run(["git", "-C", wt, "diff", "--name-only"], stdout=subprocess.PIPE, text=True, errors="replace").stdout.split()
    if ok and any(t.endswith("_test.go") for t in touched): ok, why = False, "patch edits tests"
    if ok:
        for k in range(2):
            rc, out = run(["go", "test", "-vet=off", "-count=1", "-timeout", "300s", "./..."])
            if rc != 0: ok, why = False, "existing suite fails on the patched tree"; break
    demo_dst = os.path.join(wt, demo_dir, "zz_seed_demo_test.go")
    if ok:
        shutil.copy(demo, demo_dst)
        names = re.findall(r"^func (Test\w+)\(", open(demo).read(), re.M)
        pat = "^(" + "|".join(names) + ")$"
        rc, out = run(["go", "test"] + demo_tags + ["-vet=off", "-count=1", "-timeout", "300s", "-run", pat, "./" + demo_dir])
        if rc == 0: ok, why = False, "demonstration passes on the patched tree"
    if ok:
        os.remove(demo_dst)
        run(["git", "checkout", "--", "."])
        shutil.copy(demo, demo_dst)
        for k in range(3):
            rc, out = run(["go", "test"] + demo_tags + ["-vet=off", "-count=1", "-timeout", "300s", "-run", pat, "./" + demo_dir])
            if rc != 0: ok, why = False, "demonstration fails on the unpatched tree (run %d)" % (k + 1); break
finally:
    subprocess.run(["git", "-C", "/repo", "worktree", "remove", "--force", wt])
for l in log:
    print("rc=%-3d %6.1fs %s" % (l["rc"], l["secs"], l["cmd"][:110]))
if not ok:
    print("REJECTED:", why)
    print(log[-1]["tail"])
    sys.exit(1)
dst = os.path.join("/verif/seeded", sid)
os.makedirs(dst, exist_ok=True)
shutil.copy(patch, os.path.join(dst, "patch.diff"))
shutil.copy(demo, os.path.join(dst, "demo_test.go.txt"))  # .txt so that it is never compiled as part of /verif
if os.path.exists(os.path.join(src, "notes.md")):
    shutil.copy(os.path.join(src, "notes.md"), os.path.join(dst, "notes.md"))
meta = dict(property=prop, id=sid, demo_placement=demo_dir + "/ (package %s)" % pkg, needs_to_manifest=needs,
            confirmed=dict(builds=True, suite_passes_twice=True, demo_fails_with_patch=True, demo_passes_without_patch_3x=True),
            commands=[dict(cmd=l["cmd"], rc=l["rc"], secs=l["secs"]) for l in log], base_commit=subprocess.run(["git", "-C", "/repo", "rev-parse", "--short", "HEAD"], stdout=subprocess.PIPE, text=True, errors="replace").stdout.strip(),
            origin="independent sub-agent given only the property text and a scratch worktree")
json.dump(meta, open(os.path.join(dst, "meta.json"), "w"), indent=1)
print("ACCEPTED ->", dst)
