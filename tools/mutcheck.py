#!/usr/bin/env python3
"""mutcheck.py [--tier quick] [--suite] <PROP|all> [name...]: apply each recorded mutant (mutants/<PROP>/*.diff, seeded/<id>/patch.diff with --seeded)
to /repo, run the property's check, expect exit 1, revert. Prints a table. --suite also runs the repo's own tests on the mutant (must pass)."""
import glob, json, os, subprocess, sys, time
args = sys.argv[1:]
tier = "quick"
suite = False
seeded = False
while args and args[0].startswith("--"):
    a = args.pop(0)
    if a == "--tier": tier = args.pop(0)
    elif a == "--suite": suite = True
    elif a == "--seeded": seeded = True
prop = args[0]; names = args[1:]
env = dict(os.environ, GOFLAGS="-mod=mod", GOPROXY="off", GOSUMDB="off", GOTOOLCHAIN="local")
def clean():
    return subprocess.run(["git", "-C", "/repo", "status", "--porcelain"], stdout=subprocess.PIPE, text=True).stdout.strip() == ""
assert clean(), "/repo not clean"
todo = []
if seeded:
    for d in sorted(glob.glob("/verif/seeded/*/")):
        meta = json.load(open(os.path.join(d, "meta.json")))
        if prop in ("all", meta["property"]) and (not names or os.path.basename(d.rstrip("/")) in names):
            todo.append((meta["property"], os.path.basename(d.rstrip("/")), os.path.join(d, "patch.diff")))
else:
    props = sorted(os.listdir("/verif/mutants")) if prop == "all" else [prop]
    for p in props:
        for f in sorted(glob.glob("/verif/mutants/%s/*.diff" % p)):
            n = os.path.basename(f)[:-5]
            if not names or n in names:
                todo.append((p, n, f))
res = []
for p, n, f in todo:
    try:
        r = subprocess.run(["git", "-C", "/repo", "apply", f])
        if r.returncode != 0:
            res.append((p, n, "APPLY-FAILED", 0)); continue
        st = ""
        if suite:
            r = subprocess.run(["go", "test", "-vet=off", "-count=1", "./..."], cwd="/repo", env=env, stdout=subprocess.PIPE, stderr=subprocess.STDOUT, text=True)
            st = " suite=" + ("pass" if r.returncode == 0 else "FAIL")
        t0 = time.time()
        r = subprocess.run(["./check", p, "--tier", tier], cwd="/verif", env=env, stdout=subprocess.PIPE, stderr=subprocess.STDOUT, text=True)
        keys = [l for l in r.stdout.splitlines() if l.startswith("#   key=")]
        res.append((p, n, {0: "MISSED", 1: "caught", 2: "INCONCLUSIVE"}.get(r.returncode, "rc=%d" % r.returncode) + st, time.time() - t0, keys[:1]))
    finally:
        subprocess.run(["git", "-C", "/repo", "checkout", "--", "."])
        subprocess.run(["git", "-C", "/repo", "clean", "-fdq"])
for x in res:
    print("%-4s %-40s %-14s %5.1fs %s" % (x[0], x[1], x[2], x[3], (x[4][0][:150] if len(x) > 4 and x[4] else "")))
# replays produced by mutants are not evidence of anything on the real tree
subprocess.run(["git", "-C", "/verif", "checkout", "--", "evidence"], stderr=subprocess.DEVNULL)
