#!/usr/bin/env python3
"""mutcheck.py [--tier quick] [--suite] [--seeded] [--inplace] [-j N] <PROP|all> [name...]

Applies each recorded change (mutants/<PROP>/*.diff, or seeded/<id>/patch.diff with --seeded) to a scratch git worktree
of /repo (or, with --inplace, to /repo itself exactly as the task brief describes: git apply, run, git checkout), runs the
property's check against it and expects exit 1. --suite also runs the repository's own tests on the change (they must pass
for the change to count as "survives the existing tests")."""
import concurrent.futures, glob, json, os, shutil, subprocess, sys, tempfile, time
args = sys.argv[1:]
tier, suite, seeded, inplace, jobs, keep = "quick", False, False, False, 4, None
while args and args[0].startswith("-"):
    a = args.pop(0)
    if a == "--tier": tier = args.pop(0)
    elif a == "--suite": suite = True
    elif a == "--seeded": seeded = True
    elif a == "--inplace": inplace = True; jobs = 1
    elif a == "-j": jobs = int(args.pop(0))
    elif a == "--keep-replays": keep = args.pop(0)
prop = args[0]; names = args[1:]
env = dict(os.environ, GOFLAGS="-mod=mod", GOPROXY="off", GOSUMDB="off", GOTOOLCHAIN="local")
todo = []
if seeded:
    for d in sorted(glob.glob("/verif/seeded/*/")):
        meta = json.load(open(os.path.join(d, "meta.json")))
        n = os.path.basename(d.rstrip("/"))
        if prop in ("all", meta["property"]) and (not names or n in names):
            todo.append((meta["property"], n, os.path.join(d, "patch.diff"), meta.get("also_check", [])))
else:
    props = sorted(os.listdir("/verif/mutants")) if prop == "all" else [prop]
    for p in props:
        for f in sorted(glob.glob("/verif/mutants/%s/*.diff" % p)):
            n = os.path.basename(f)[:-5]
            if not names or n in names:
                todo.append((p, n, f, []))

def one(item):
    p, n, f, also = item
    t0 = time.time()
    if inplace:
        assert subprocess.run(["git", "-C", "/repo", "status", "--porcelain"], stdout=subprocess.PIPE, text=True).stdout.strip() == "", "/repo not clean"
        repo = "/repo"
        e = dict(env)
    else:
        repo = tempfile.mkdtemp(prefix="mutwt-")
        os.rmdir(repo)
        subprocess.run(["git", "-C", "/repo", "worktree", "add", "--detach", "-q", repo, "HEAD"], check=True)
        out = tempfile.mkdtemp(prefix="mutout-")
        e = dict(env, VERIF_REPO=repo, VERIF_ALT_OUT=out)
    try:
        r = subprocess.run(["git", "-C", repo, "apply", f])
        if r.returncode != 0:
            return (p, n, "APPLY-FAILED", 0, [])
        st = ""
        if suite:
            r = subprocess.run(["go", "test", "-vet=off", "-count=1", "-timeout", "120s", "./..."], cwd=repo, env=env, stdout=subprocess.PIPE, stderr=subprocess.STDOUT, text=True)
            st = " suite=" + ("pass" if r.returncode == 0 else "FAIL")
        for chk in [p] + list(also):
            r = subprocess.run(["./check", chk, "--tier", tier], cwd="/verif", env=e, stdout=subprocess.PIPE, stderr=subprocess.STDOUT, text=True)
            keys = [l for l in r.stdout.splitlines() if l.startswith("#   key=")]
            if r.returncode == 1:
                break
        verdict = {0: "MISSED", 1: "caught", 2: "INCONCLUSIVE"}.get(r.returncode, "rc=%d" % r.returncode)
        if r.returncode == 1 and chk != p:
            verdict += " by " + chk
        return (p, n, verdict + st, time.time() - t0, keys[:1])
    finally:
        if inplace:
            subprocess.run(["git", "-C", "/repo", "checkout", "--", "."])
            subprocess.run(["git", "-C", "/verif", "checkout", "--", "evidence"], stderr=subprocess.DEVNULL)
        else:
            subprocess.run(["git", "-C", "/repo", "worktree", "remove", "--force", repo])
            if keep:
                for root, _, files in os.walk(os.path.join(out, "replays")):
                    for fn in files:
                        os.makedirs(os.path.join(keep, p), exist_ok=True)
                        shutil.copy(os.path.join(root, fn), os.path.join(keep, p, n + "--" + fn))
            shutil.rmtree(out, ignore_errors=True)

with concurrent.futures.ThreadPoolExecutor(jobs) as ex:
    res = list(ex.map(one, todo))
for x in res:
    print("%-4s %-40s %-22s %6.1fs %s" % (x[0], x[1], x[2], x[3], (x[4][0][:160] if x[4] else "")))
missed = [x for x in res if not x[2].startswith("caught")]
print("%d/%d caught" % (len(res) - len(missed), len(res)))
